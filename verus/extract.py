#!/usr/bin/env python3
"""Mechanical extraction of real functions from /repo/src into one Verus file per unit.

Closed rule list (DESIGN.md 3.4).  Everything not named by a rule is the repository's text, re-read on every run.
  R1 visibility -> pub                       R2 anyhow::Result<T> -> Result<T, Error>, bail!/anyhow! -> Err(Error)
  R3 .with_context(..)/.context(..) dropped  R4 log::<level>!(..); dropped
  R5 #[cfg(not(test))] items/statements dropped (unit = cfg(test) configuration)
  R6 module-manager link / message channel fields -> opaque types; the one notify expression -> notify_modules()
  R7 (run unit) host clock / sleeper / settings reads -> external_body functions with unconstrained results
  R8 std calls without vstd spec -> assume_specification (listed)      R9 ghost fields added
An item that cannot be found is a lost anchor (exit 2 upstream), never a violation.
"""
import os, re, sys, json

REPO = os.environ.get("KOGE29_REPO", "/repo")


class LostAnchor(Exception):
    pass


def read(rel):
    return open(os.path.join(REPO, rel)).read()


def strip_tests(src):
    i = src.find("#[cfg(test)]\nmod tests")
    return src if i < 0 else src[:i]


def match_brace(src, i):
    """src[i] == '{' -> index just after the matching '}' (skips strings, chars, comments)"""
    assert src[i] == "{"
    depth = 0
    n = len(src)
    while i < n:
        ch = src[i]
        if src.startswith("//", i):
            i = src.find("\n", i)
            if i < 0:
                return n
            continue
        if src.startswith("/*", i):
            i = src.find("*/", i) + 2
            continue
        if ch == '"':
            i += 1
            while src[i] != '"':
                i += 2 if src[i] == "\\" else 1
            i += 1
            continue
        if ch == "'":
            # char literal or lifetime
            m = re.match(r"'(\\.|[^\\'])'", src[i:])
            if m:
                i += m.end()
                continue
        if ch == "{":
            depth += 1
        elif ch == "}":
            depth -= 1
            if depth == 0:
                return i + 1
        i += 1
    raise LostAnchor("unbalanced braces")


def match_paren(src, i):
    assert src[i] == "("
    depth = 0
    while i < len(src):
        ch = src[i]
        if ch == '"':
            i += 1
            while src[i] != '"':
                i += 2 if src[i] == "\\" else 1
        elif ch == "(":
            depth += 1
        elif ch == ")":
            depth -= 1
            if depth == 0:
                return i + 1
        i += 1
    raise LostAnchor("unbalanced parens")


def get_fn(src, name):
    """returns (signature_text_without_body, body_text_with_braces) of `fn name`"""
    m = re.search(r"(?m)^[ \t]*((?:pub(?:\([^)]*\))?\s+)?fn\s+%s\s*(?:<[^>]*>)?\s*\()" % re.escape(name), src)
    if not m:
        raise LostAnchor("fn %s not found" % name)
    start = m.start(1)
    p = match_paren(src, m.end(1) - 1)
    b = src.find("{", p)
    sig = src[start:b].strip()
    end = match_brace(src, b)
    return sig, src[b:end]


def get_struct(src, name):
    m = re.search(r"(?m)^[ \t]*(?:pub(?:\([^)]*\))?\s+)?struct\s+%s\s*\{" % re.escape(name), src)
    if not m:
        raise LostAnchor("struct %s not found" % name)
    b = src.find("{", m.start())
    end = match_brace(src, b)
    return src[m.start():end]


def get_enum(src, name):
    m = re.search(r"(?m)^[ \t]*(?:pub(?:\([^)]*\))?\s+)?enum\s+%s\s*\{" % re.escape(name), src)
    if not m:
        raise LostAnchor("enum %s not found" % name)
    b = src.find("{", m.start())
    end = match_brace(src, b)
    return src[m.start():end]


def get_consts(src):
    return re.findall(r"(?m)^(?:pub(?:\([^)]*\))?\s+)?const\s+[A-Z0-9_]+\s*:\s*[^=]+=\s*[^;]+;", src)


def r1_pub(sig):
    sig = re.sub(r"^pub\([^)]*\)\s+", "pub ", sig)
    if not sig.startswith("pub "):
        sig = "pub " + sig
    return sig


def drop_macro_stmt(body, pat):
    """drops statements `<pat>!( ... );`"""
    out = []
    i = 0
    rx = re.compile(pat + r"!\s*\(")
    while True:
        m = rx.search(body, i)
        if not m:
            out.append(body[i:])
            break
        out.append(body[i:m.start()])
        e = match_paren(body, m.end() - 1)
        # swallow trailing ;
        j = e
        while j < len(body) and body[j] in " \t":
            j += 1
        if j < len(body) and body[j] == ";":
            j += 1
        i = j
    return "".join(out)


def replace_macro_expr(body, name, repl):
    out = []
    i = 0
    rx = re.compile(r"\b" + name + r"!\s*\(")
    while True:
        m = rx.search(body, i)
        if not m:
            out.append(body[i:])
            break
        out.append(body[i:m.start()])
        e = match_paren(body, m.end() - 1)
        out.append(repl)
        i = e
    return "".join(out)


def drop_method_call(body, meth):
    """drops `.meth( ... )` (R3)"""
    out = []
    i = 0
    rx = re.compile(r"\s*\.\s*" + meth + r"\s*\(")
    while True:
        m = rx.search(body, i)
        if not m:
            out.append(body[i:])
            break
        out.append(body[i:m.start()])
        e = match_paren(body, m.end() - 1)
        i = e
    return "".join(out)


def common_rules(text):
    text = drop_macro_stmt(text, r"log::(?:trace|debug|info|warn|error)")  # R4
    text = replace_macro_expr(text, "bail", "return Err(Error)")  # R2
    text = replace_macro_expr(text, "anyhow", "Error")  # R2
    text = drop_method_call(text, "with_context")  # R3
    text = drop_method_call(text, "context")  # R3
    text = re.sub(r"\bResult<([^<>]*(?:<[^<>]*>)?[^<>]*)>", lambda m: "Result<%s, Error>" % m.group(1) if "," not in m.group(1) else m.group(0), text)  # R2
    return text


def splice(sig, body, contract, loop_invs=None):
    """signature + contract clauses + body; loop invariants after the n-th while/loop header"""
    sig = r1_pub(common_rules(sig))
    body = common_rules(body)
    if loop_invs:
        for n, inv in sorted(loop_invs.items(), reverse=True):
            heads = [m for m in re.finditer(r"(?m)^[ \t]*(while\b[^{]*|loop\s*)\{", body)]
            if n >= len(heads):
                raise LostAnchor("loop %d not found" % n)
            h = heads[n]
            brace = h.end() - 1
            body = body[:brace] + "\n" + inv + "\n" + body[brace:]
    return sig + "\n" + (contract or "") + body + "\n"


def parse_contract_file(path):
    """sections introduced by lines '//@ <kind> <name>'"""
    secs = {}
    cur = None
    for ln in open(path):
        m = re.match(r"^//@\s*(\w+)\s*(.*)$", ln.rstrip("\n"))
        if m:
            cur = (m.group(1), m.group(2).strip())
            secs[cur] = []
        elif cur is not None:
            secs[cur].append(ln)
    return {k: "".join(v) for k, v in secs.items()}
