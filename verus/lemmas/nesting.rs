// Nesting lemma for C05 / C06 (pure Verus proof over the single-step contracts; nothing extracted here).
//
// The single-step contracts proved on the real code (Kani: C05/<call form>/*, C05/RTS/*, C06/TRAPA_N/*,
// C06/interrupt/*, C06/RTE/*, incl. the `mem_frame` clauses) say, abstractly:
//   enter(v):  the frame word at SP-4 := v (return address, with CCR for exceptions), SP := SP-4,
//              nothing at or above the old SP is written
//   leave:     resume value := the frame word at SP, SP := SP+4, nothing is written
// and every other instruction of a well-behaved body leaves SP alone and writes nothing at or above SP
// (`Other(a, x)`: a store to an address strictly below SP, or no store at all).
// The lemma: for EVERY properly nested program - any depth, any interleaving of bodies - `enter(v); body; leave`
// resumes with exactly v and the original SP, and every location at or above the original SP reads as before.
// This is the induction on nesting depth that DESIGN.md 5.5/5.6 used to argue on paper.
use vstd::prelude::*;
verus! {

pub struct M {
    pub sp: int,
    pub resumed: int,          // value handed to the last `leave` (PC, or CCR:PC)
    pub mem: Map<int, int>,    // one abstract cell per 4-byte frame word / stored location
}

/// properly nested programs
pub enum Prog {
    Nil,
    /// an ordinary instruction that may store `x` at address `a`, provided a < SP at that time
    Other(int, int, Box<Prog>),
    /// enter(v); inner; leave; rest
    Nest(int, Box<Prog>, Box<Prog>),
}

pub open spec fn enter(s: M, v: int) -> M {
    M { sp: s.sp - 4, resumed: s.resumed, mem: s.mem.insert(s.sp - 4, v) }
}
pub open spec fn leave(s: M) -> M {
    M { sp: s.sp + 4, resumed: s.mem[s.sp], mem: s.mem }
}
pub open spec fn other(s: M, a: int, x: int) -> M {
    if a < s.sp { M { sp: s.sp, resumed: s.resumed, mem: s.mem.insert(a, x) } } else { s }
}

pub open spec fn run(p: Prog, s: M) -> M
    decreases p,
{
    match p {
        Prog::Nil => s,
        Prog::Other(a, x, rest) => run(*rest, other(s, a, x)),
        Prog::Nest(v, inner, rest) => run(*rest, leave(run(*inner, enter(s, v)))),
    }
}

/// what a properly nested program preserves
pub open spec fn preserves(s: M, t: M) -> bool {
    t.sp == s.sp && forall|a: int| #![trigger s.mem.dom().contains(a)] a >= s.sp && s.mem.dom().contains(a) ==> t.mem.dom().contains(a) && t.mem[a] == s.mem[a]
}

pub proof fn lemma_nested_program_preserves(p: Prog, s: M)
    ensures preserves(s, run(p, s)),
    decreases p,
{
    match p {
        Prog::Nil => {}
        Prog::Other(a, x, rest) => {
            let s1 = other(s, a, x);
            lemma_nested_program_preserves(*rest, s1);
            let t = run(*rest, s1);
            assert forall|b: int| #![trigger s.mem.dom().contains(b)] b >= s.sp && s.mem.dom().contains(b) implies t.mem.dom().contains(b) && t.mem[b] == s.mem[b] by {
                assert(s1.mem.dom().contains(b) && s1.mem[b] == s.mem[b]);
            }
        }
        Prog::Nest(v, inner, rest) => {
            let s1 = enter(s, v);
            lemma_nested_program_preserves(*inner, s1);
            let s2 = run(*inner, s1);
            let s3 = leave(s2);
            assert(s3.sp == s.sp);
            assert forall|b: int| #![trigger s.mem.dom().contains(b)] b >= s.sp && s.mem.dom().contains(b) implies s3.mem.dom().contains(b) && s3.mem[b] == s.mem[b] by {
                assert(s1.mem.dom().contains(b) && s1.mem[b] == s.mem[b]);
            }
            lemma_nested_program_preserves(*rest, s3);
            let t = run(*rest, s3);
            assert forall|b: int| #![trigger s.mem.dom().contains(b)] b >= s.sp && s.mem.dom().contains(b) implies t.mem.dom().contains(b) && t.mem[b] == s.mem[b] by {
                assert(s3.mem.dom().contains(b) && s3.mem[b] == s.mem[b]);
            }
        }
    }
}

/// C05: a call followed (after any properly nested body) by the matching return resumes right after the call with
/// SP restored; C06: exception entry ... RTE resumes the interrupted program with its CCR:PC word.  Any depth.
pub proof fn lemma_enter_body_leave_resumes(v: int, body: Prog, s: M)
    ensures
        leave(run(body, enter(s, v))).resumed == v, // OBL:C05/lemma/call_body_return_resumes_after_the_call_at_any_nesting_depth
        leave(run(body, enter(s, v))).sp == s.sp, // OBL:C05/lemma/sp_restored_at_any_nesting_depth
        forall|a: int| #![trigger s.mem.dom().contains(a)] a >= s.sp && s.mem.dom().contains(a) ==> leave(run(body, enter(s, v))).mem[a] == s.mem[a], // OBL:C06/lemma/memory_outside_the_frames_unchanged_at_any_nesting_depth
{
    let s1 = enter(s, v);
    lemma_nested_program_preserves(body, s1);
    let s2 = run(body, s1);
    assert(s1.mem.dom().contains(s1.sp) && s1.mem[s1.sp] == v);
    assert(s2.mem[s2.sp] == v);
    assert forall|a: int| #![trigger s.mem.dom().contains(a)] a >= s.sp && s.mem.dom().contains(a) implies s2.mem[a] == s.mem[a] by {
        assert(s1.mem.dom().contains(a) && s1.mem[a] == s.mem[a]);
    }
}

CANARY
} // verus!
fn main() {}
