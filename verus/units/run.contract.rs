//@ prelude -
// ---- unit run: Cpu::run (property C13), cfg(test) configuration (no socket) ----
#[derive(Debug)]
pub struct Error;

#[verifier::external_body]
pub struct ModuleLink { _p: u8 }
#[verifier::external_body]
pub struct MsgTx { _p: u8 }
#[verifier::external_body]
pub struct InterruptController { _p: u8 }

// 64-bit host (listed assumption): usize is 8 bytes
global size_of usize == 8;

pub mod sumspec {
    use vstd::prelude::*;
    pub open spec fn sum(s: Seq<int>) -> int
        decreases s.len(),
    {
        if s.len() == 0 { 0 } else { sum(s.drop_last()) + s.last() }
    }
    pub broadcast proof fn lemma_sum_push(s: Seq<int>, x: int)
        ensures #[trigger] sum(s.push(x)) == sum(s) + x,
    {
        assert(s.push(x).drop_last() =~= s);
    }
}
pub use sumspec::sum;
broadcast use sumspec::lemma_sum_push;

impl Cpu {
    /// the fields of the time base; every callee below is assumed not to touch them (their real
    /// bodies: C01-C08 instruction contracts, C10 unit, C17 unit - none has an access path except
    /// the ones named in the individual contracts)
    pub open spec fn tb_eq(&self, o: &Cpu) -> bool {
        self.state_sum == o.state_sum && self.exit_addr == o.exit_addr && self.bus.cpu_state_sum == o.bus.cpu_state_sum
        && self.sync_log@ == o.sync_log@ && self.charges@ == o.charges@ && self.exec_failed@ == o.exec_failed@
    }

    #[verifier::external_body]
    pub fn send_ready_message(&mut self) -> (r: Result<(), Error>)
        ensures final(self).tb_eq(old(self)),
    { unimplemented!() }

    #[verifier::external_body]
    pub fn init_registers(&mut self) -> (r: Result<(), Error>)
        ensures final(self).tb_eq(old(self)),
    { unimplemented!() }

    #[verifier::external_body]
    pub fn try_interrupt(&mut self) -> (r: Result<(), Error>)
        ensures final(self).tb_eq(old(self)),
    { unimplemented!() }

    /// never called again after an instruction failed
    #[verifier::external_body]
    pub fn fetch(&mut self) -> (r: u16)
        requires !old(self).exec_failed@, // OBL:C13/run/no_fetch_after_failed_instruction
        ensures final(self).tb_eq(old(self)),
    { unimplemented!() }

    #[verifier::external_body]
    pub fn exec(&mut self, opcode: u16) -> (r: Result<u8, Error>)
        ensures
            final(self).state_sum == old(self).state_sum && final(self).exit_addr == old(self).exit_addr
            && final(self).bus.cpu_state_sum == old(self).bus.cpu_state_sum
            && final(self).sync_log@ == old(self).sync_log@ && final(self).charges@ == old(self).charges@,
            final(self).exec_failed@ == r.is_err(),
    { unimplemented!() }

    /// message seam: `sync:<state_sum>`
    #[verifier::external_body]
    pub fn send_sync_message(&mut self) -> (r: Result<(), Error>)
        ensures
            final(self).state_sum == old(self).state_sum && final(self).exit_addr == old(self).exit_addr
            && final(self).bus.cpu_state_sum == old(self).bus.cpu_state_sum
            && final(self).charges@ == old(self).charges@ && final(self).exec_failed@ == old(self).exec_failed@
            && final(self).pc == old(self).pc,
            r.is_ok() ==> final(self).sync_log@ == old(self).sync_log@.push(old(self).state_sum as int),
            r.is_err() ==> final(self).sync_log@ == old(self).sync_log@,
    { unimplemented!() }

    /// R6b: `self.modules.timer8_0.update_timer8_0(bus, state, interrupt_controller)` - the timer is shown
    /// `state`; it may raise interrupt requests and write its own registers (C17 frame) but not the time base
    #[verifier::external_body]
    pub fn timer8_0_link(&mut self, state: u8) -> (r: Result<(), Error>)
        ensures
            final(self).state_sum == old(self).state_sum && final(self).exit_addr == old(self).exit_addr
            && final(self).bus.cpu_state_sum == old(self).bus.cpu_state_sum
            && final(self).sync_log@ == old(self).sync_log@ && final(self).exec_failed@ == old(self).exec_failed@
            && final(self).pc == old(self).pc,
            final(self).charges@ == old(self).charges@.push(state as int),
    { unimplemented!() }

    #[verifier::external_body]
    pub fn print_er(&self) { unimplemented!() }
}

/// R7: host-side inputs, unconstrained
#[verifier::external_body]
pub fn host_setting_wait_start() -> (r: bool) { unimplemented!() }
#[verifier::external_body]
pub fn host_setting_print_opcode() -> (r: bool) { unimplemented!() }

//@ fn update_modules
        ensures
            final(self).state_sum == old(self).state_sum && final(self).exit_addr == old(self).exit_addr
            && final(self).bus.cpu_state_sum == old(self).bus.cpu_state_sum
            && final(self).sync_log@ == old(self).sync_log@ && final(self).exec_failed@ == old(self).exec_failed@
            && final(self).pc == old(self).pc,
            final(self).charges@ == old(self).charges@.push(state as int), // OBL:C13/update_modules/peripherals_are_clocked_with_exactly_the_amount_passed
//@ fn run
        requires
            old(self).state_sum == 0,
            old(self).bus.cpu_state_sum == 0,
            old(self).sync_log@.len() == 0,
            old(self).charges@.len() == 0,
            !old(self).exec_failed@,
        ensures
            r.is_ok() ==> final(self).pc == final(self).exit_addr, // OBL:C13/run/success_only_at_exit_address
            r.is_ok() ==> !final(self).exec_failed@, // OBL:C13/run/failed_instruction_never_reports_success
            final(self).bus.cpu_state_sum == final(self).state_sum, // OBL:C13/run/bus_sees_the_same_total
            r.is_ok() ==> sum(final(self).charges@) == final(self).state_sum as int, // OBL:C13/run/peripherals_see_exactly_what_is_charged
            r.is_ok() ==> final(self).sync_log@.len() * 2000000 <= final(self).state_sum as int && (final(self).state_sum as int) < (final(self).sync_log@.len() + 1) * 2000000, // OBL:C13/run/one_sync_per_multiple_of_2000000
            forall|k: int| 0 <= k < final(self).sync_log@.len() ==> 2000000 * (k + 1) <= #[trigger] final(self).sync_log@[k] && final(self).sync_log@[k] < 2000000 * (k + 1) + 256, // OBL:C13/run/kth_sync_carries_the_total_that_passed_the_kth_multiple
//@ loop run 0
            invariant
                self.bus.cpu_state_sum == self.state_sum,
                !self.exec_failed@,
                sync_count < 2000000,
                count_1msec < 20000,
                self.state_sum as int == 2000000 * self.sync_log@.len() + sync_count as int,
                sum(self.charges@) == self.state_sum as int,
                forall|k: int| 0 <= k < self.sync_log@.len() ==> 2000000 * (k + 1) <= #[trigger] self.sync_log@[k] && self.sync_log@[k] < 2000000 * (k + 1) + 256,
//@ lemmas -
