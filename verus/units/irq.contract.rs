//@ prelude -
// ---- unit irq: InterruptController::request_interrupt, Cpu::try_interrupt (property C10) ----
#[derive(Debug)]
pub struct Error;

/// the bus and the peripheral link are opaque in this unit (try_interrupt does not touch them itself)
#[verifier::external_body]
pub struct Bus { _p: u8 }
#[verifier::external_body]
pub struct ModuleLink { _p: u8 }

pub open spec fn i_masked(ccr: u8) -> bool { ccr & 0x80 != 0 }

impl Cpu {
    /// assumed contract of exception entry (its real body is verified against spec/isa.rs::exception_entry
    /// by the Kani unit of C06): enters through the vector of the number it is given, exactly once,
    /// and never touches the request queue.
    #[verifier::external_body]
    pub fn interrupt(&mut self, vector: u8) -> (r: Result<(), Error>)
        ensures
            final(self).interrupt_controller == old(self).interrupt_controller,
            r.is_ok() ==> final(self).entered@ == old(self).entered@.push(vector),
            r.is_err() ==> final(self).entered@ == old(self).entered@,
    {
        unimplemented!()
    }
}

//@ fn request_interrupt
        ensures
            final(self).interrupt_requests@ == old(self).interrupt_requests@.push(num), // OBL:C10/request_interrupt/appended_once_in_order
//@ fn try_interrupt
        ensures
            i_masked(old(self).ccr) ==> final(self).interrupt_controller.interrupt_requests@ == old(self).interrupt_controller.interrupt_requests@, // OBL:C10/try_interrupt/masked_keeps_requests_pending
            i_masked(old(self).ccr) ==> final(self).entered@ == old(self).entered@ && r.is_ok(), // OBL:C10/try_interrupt/masked_delivers_nothing
            !i_masked(old(self).ccr) && old(self).interrupt_controller.interrupt_requests@.len() == 0 ==> final(self).entered@ == old(self).entered@ && final(self).interrupt_controller.interrupt_requests@.len() == 0 && r.is_ok(), // OBL:C10/try_interrupt/nothing_pending_nothing_delivered
            !i_masked(old(self).ccr) && old(self).interrupt_controller.interrupt_requests@.len() > 0 ==> final(self).interrupt_controller.interrupt_requests@ == old(self).interrupt_controller.interrupt_requests@.drop_first(), // OBL:C10/try_interrupt/oldest_request_removed_exactly_once
            !i_masked(old(self).ccr) && old(self).interrupt_controller.interrupt_requests@.len() > 0 && r.is_ok() ==> final(self).entered@ == old(self).entered@.push(old(self).interrupt_controller.interrupt_requests@[0]), // OBL:C10/try_interrupt/enters_through_own_vector
//@ lemmas -
// ---- history lemma: none lost, duplicated, reordered or redirected ----
pub enum Ev { Request(u8), Boundary { masked: bool } }

pub struct Abs { pub pending: Seq<u8>, pub delivered: Seq<u8>, pub requested: Seq<u8> }

/// one step of the abstract machine the two contracts above compose to
pub open spec fn abs_step(s: Abs, e: Ev) -> Abs {
    match e {
        Ev::Request(n) => Abs { pending: s.pending.push(n), delivered: s.delivered, requested: s.requested.push(n) },
        Ev::Boundary { masked } =>
            if masked || s.pending.len() == 0 { s }
            else { Abs { pending: s.pending.drop_first(), delivered: s.delivered.push(s.pending[0]), requested: s.requested } },
    }
}
pub open spec fn abs_run(s: Abs, h: Seq<Ev>) -> Abs
    decreases h.len(),
{
    if h.len() == 0 { s } else { abs_step(abs_run(s, h.drop_last()), h.last()) }
}
pub open spec fn abs_inv(s: Abs) -> bool { s.delivered + s.pending =~= s.requested }

pub proof fn lemma_step_keeps_inv(s: Abs, e: Ev)
    requires abs_inv(s),
    ensures abs_inv(abs_step(s, e)),
{
    match e {
        Ev::Request(n) => {
            assert(s.delivered + s.pending.push(n) =~= (s.delivered + s.pending).push(n));
        }
        Ev::Boundary { masked } => {
            if !(masked || s.pending.len() == 0) {
                assert(s.delivered.push(s.pending[0]) + s.pending.drop_first() =~= s.delivered + s.pending);
            }
        }
    }
}

/// for EVERY history of requests and instruction boundaries: delivered ++ pending == requested
pub proof fn lemma_history_exactly_once(h: Seq<Ev>)
    ensures
        abs_inv(abs_run(Abs { pending: Seq::empty(), delivered: Seq::empty(), requested: Seq::empty() }, h)), // OBL:C10/lemma/delivered_plus_pending_is_requested
    decreases h.len(),
{
    let s0 = Abs { pending: Seq::<u8>::empty(), delivered: Seq::<u8>::empty(), requested: Seq::<u8>::empty() };
    if h.len() == 0 {
        assert(s0.delivered + s0.pending =~= s0.requested);
    } else {
        lemma_history_exactly_once(h.drop_last());
        lemma_step_keeps_inv(abs_run(s0, h.drop_last()), h.last());
    }
}

/// nothing is delivered at a boundary where I is set
pub proof fn lemma_masked_boundary_delivers_nothing(s: Abs)
    ensures
        abs_step(s, Ev::Boundary { masked: true }).delivered == s.delivered, // OBL:C10/lemma/masked_boundary_delivers_nothing
{
}
