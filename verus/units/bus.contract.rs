//@ prelude -
// ---- specification vocabulary of the bus unit (property C09, frame part of C16) ----
#[derive(Debug)]
pub struct Error;

/// R6: link to the peripheral manager; opaque to this unit (its effect is C17's subject)
#[verifier::external_body]
pub struct ModuleLink { _p: u8 }
/// R6: outgoing message channel; opaque
#[verifier::external_body]
pub struct MsgTx { _p: u8 }

/// the address map of the C09 statement
pub open spec fn mapped(a: u32) -> bool {
    a <= 0xff
    || (0x400000 <= a && a <= 0x5fffff)
    || (0xfee000 <= a && a <= 0xfee0ff)
    || (0xffbf20 <= a && a <= 0xffff1f)
    || (0xffff20 <= a && a <= 0xffffe9)
}
pub open spec fn is_ddr(a: u32) -> bool { 0xfee000 <= a && a <= 0xfee00a }
pub open spec fn is_dr(a: u32) -> bool { 0xffffd0 <= a && a <= 0xffffda }
pub open spec fn port_reg(a: u32) -> bool { is_ddr(a) || is_dr(a) }
/// the two register locations of the port that `a` (a DDR or DR address) belongs to
pub open spec fn same_port(a: u32, b: u32) -> bool {
    if is_ddr(a) { b == a || b == 0xffffd0 + (a - 0xfee000) }
    else { b == a || b == 0xfee000 + (a - 0xffffd0) }
}

impl Bus {
    pub open spec fn wf(&self) -> bool {
        self.exception_handling_vector@.len() == 0x100
        && self.dram@.len() == 0x200000
        && self.io_registrs1@.len() == 0x100
        && self.io_registrs2@.len() == 0xca
    }
    /// abstract view: the byte an accessible address denotes
    pub open spec fn at(&self, a: u32) -> u8 {
        if a <= 0xff { self.exception_handling_vector@[a as int] }
        else if 0x400000 <= a && a <= 0x5fffff { self.dram@[a - 0x400000] }
        else if 0xfee000 <= a && a <= 0xfee0ff { self.io_registrs1@[a - 0xfee000] }
        else if 0xffbf20 <= a && a <= 0xffff1f { self.memory@[a - 0xffbf20] }
        else { self.io_registrs2@[a - 0xffff20] }
    }
    /// everything that is not addressable storage
    pub open spec fn side_eq(&self, o: &Bus) -> bool {
        self.io_port_in == o.io_port_in && self.cpu_state_sum == o.cpu_state_sum
    }

    /// R6: the one expression that notifies the peripheral manager of a register write.
    /// `write_registers(&mut ModuleManager, u32, u8)` has no access path to the Bus (Rust typing).
    /// The result type is copied from the real `ModuleManager::write_registers` signature on every run
    /// (`/*@NOTIFY_RET@*/`); whatever it returns is unconstrained here.
    #[verifier::external_body]
    pub fn notify_modules(&self, addr: u32, value: u8) /*@NOTIFY_RET@*/ {
        unimplemented!()
    }

    /// message seam: formats and queues `ioport:<port>:<value>:<states>`; changes no storage
    #[verifier::external_body]
    pub fn send_io_port_value(&mut self, port: u8, value: u8) -> (r: Result<(), Error>)
        ensures
            forall|b: u32| mapped(b) ==> final(self).at(b) == old(self).at(b),
            final(self).side_eq(old(self)),
            final(self).wf() == old(self).wf(),
    {
        unimplemented!()
    }
}

//@ fn read
        requires
            self.wf(),
        ensures
            mapped(addr) ==> r.is_ok() && r.unwrap() == self.at(addr), // OBL:C09/Bus::read/returns_stored_byte
            !mapped(addr) ==> r.is_err(), // OBL:C09/Bus::read/unmapped_is_error
//@ fn write
        requires
            old(self).wf(),
        ensures
            final(self).wf(), // OBL:C09/Bus::write/keeps_wellformed
            !mapped(addr) ==> r.is_err() && forall|b: u32| mapped(b) ==> final(self).at(b) == old(self).at(b), // OBL:C09/Bus::write/unmapped_is_error_and_changes_nothing
            final(self).side_eq(old(self)), // OBL:C09/Bus::write/no_side_state_change
            mapped(addr) && !port_reg(addr) ==> r.is_ok() && final(self).at(addr) == value, // OBL:C09/Bus::write/stores_value
            mapped(addr) && !port_reg(addr) ==> forall|b: u32| mapped(b) && b != addr ==> final(self).at(b) == old(self).at(b), // OBL:C09/Bus::write/no_aliasing_every_other_location_unchanged
            port_reg(addr) ==> forall|b: u32| mapped(b) && !same_port(addr, b) ==> final(self).at(b) == old(self).at(b), // OBL:C09/Bus::write/port_write_touches_only_its_own_port
//@ fn read_ddr
        requires
            self.wf(),
            1 <= port && port <= 0xb,
        ensures
            r == self.io_registrs1@[port as int - 1],
//@ fn write_dr
        requires
            old(self).wf(),
            1 <= port && port <= 0xb,
        ensures
            final(self).wf(),
            final(self).side_eq(old(self)),
            forall|b: u32| mapped(b) && b != 0xffffd0 + (port as u32 - 1) ==> final(self).at(b) == old(self).at(b),
            final(self).at((0xffffd0 + (port as u32 - 1)) as u32) == value,
//@ fn read_dr
        requires
            self.wf(),
            1 <= port && port <= 0xb,
        ensures
            r == self.at((0xffffd0 + (port as u32 - 1)) as u32),
//@ fn write_port
        requires
            old(self).wf(),
        ensures
            final(self).wf(),
            final(self).cpu_state_sum == old(self).cpu_state_sum,
            !(1 <= port && port <= 0xb) ==> final(self).io_port_in == old(self).io_port_in && forall|b: u32| mapped(b) ==> final(self).at(b) == old(self).at(b), // OBL:C16/write_port/invalid_port_ignored
            (1 <= port && port <= 0xb) ==> forall|b: u32| mapped(b) && b != 0xffffd0 + (port as u32 - 1) ==> final(self).at(b) == old(self).at(b), // OBL:C16/write_port/touches_only_own_DR
            (1 <= port && port <= 0xb) ==> forall|q: int| 0 <= q < 11 && q != port as int - 1 ==> final(self).io_port_in[q] == old(self).io_port_in[q], // OBL:C16/write_port/other_ports_pins_unchanged
//@ fn on_write_ddr
        requires
            old(self).wf(),
            is_ddr(addr),
        ensures
            final(self).wf(),
            final(self).side_eq(old(self)),
            forall|b: u32| mapped(b) && !same_port(addr, b) ==> final(self).at(b) == old(self).at(b), // OBL:C16/on_write_ddr/touches_only_own_port
//@ fn on_write_dr
        requires
            old(self).wf(),
            is_dr(addr),
        ensures
            final(self).wf(),
            final(self).side_eq(old(self)),
            forall|b: u32| mapped(b) && b != addr ==> final(self).at(b) == old(self).at(b), // OBL:C16/on_write_dr/touches_only_own_DR
//@ lemmas -
// ---- property-level lemmas over the contracts ----

/// C09 classification: `mapped` is exactly the five ranges of the statement, for every u32
/// (so every hole and everything at or above 2^24 is covered without enumeration).
pub proof fn lemma_mapped_is_the_statement(a: u32)
    ensures
        mapped(a) <==> (a <= 0xff || (0x400000 <= a <= 0x5fffff) || (0xfee000 <= a <= 0xfee0ff) || (0xffbf20 <= a <= 0xffff1f) || (0xffff20 <= a <= 0xffffe9)),
        a >= 0x1000000 ==> !mapped(a), // OBL:C09/lemma/above_16MiB_unmapped
{
}

/// abstract memory after a history of plain-storage writes (what the write contract composes to)
pub open spec fn after(m: Map<u32, u8>, ops: Seq<(u32, u8)>) -> Map<u32, u8>
    decreases ops.len(),
{
    if ops.len() == 0 { m } else { after(m, ops.drop_last()).insert(ops.last().0, ops.last().1) }
}
pub open spec fn last_write(ops: Seq<(u32, u8)>, a: u32) -> Option<u8>
    decreases ops.len(),
{
    if ops.len() == 0 { None }
    else if ops.last().0 == a { Some(ops.last().1) }
    else { last_write(ops.drop_last(), a) }
}
/// write-read over arbitrary histories: a location reads as the last value written to it, or as it
/// did initially - no write ever changes what another location reads (induction over the history).
pub proof fn lemma_history(m: Map<u32, u8>, ops: Seq<(u32, u8)>, a: u32)
    requires
        m.dom().contains(a),
    ensures
        after(m, ops).dom().contains(a),
        after(m, ops)[a] == (match last_write(ops, a) { Some(v) => v, None => m[a] }), // OBL:C09/lemma/history_write_read
    decreases ops.len(),
{
    if ops.len() > 0 {
        lemma_history(m, ops.drop_last(), a);
    }
}
