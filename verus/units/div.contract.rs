//@ prelude -
// ---- unit div: DIVXU.B / DIVXU.W value clause over the FULL operand domain (property C02) ----
// CBMC cannot prove two independent 32/16 divider circuits equal; for an SMT-based deductive verifier the
// obligation is easy because quotient and remainder are the mathematical / and % of the same operands.
#[derive(Debug)]
pub struct Error;

#[verifier::external_body]
pub struct Bus { _p: u8 }
#[verifier::external_body]
pub struct ModuleLink { _p: u8 }
#[verifier::external_body]
pub struct InterruptController { _p: u8 }


/// the register-file lanes, in the emulator's own words (rn.rs is verified against these below)
pub open spec fn lane_b(er: Seq<u32>, r: u8) -> u8 {
    if r <= 7 { (er[r as int] >> 8) as u8 } else { er[r as int - 8] as u8 }
}
pub open spec fn lane_w(er: Seq<u32>, r: u8) -> u16 {
    if r <= 7 { er[r as int] as u16 } else { (er[r as int - 8] >> 16) as u16 }
}
pub open spec fn nib(opcode: u16, order: u8) -> u8 {
    ((opcode >> ((4 * (4 - order)) as u16)) as u8) & 0xf
}
pub open spec fn set_w(er: Seq<u32>, r: u8, value: u16) -> Seq<u32> {
    if r <= 7 { er.update(r as int, (er[r as int] & 0xffff0000) | (value as u32)) }
    else { er.update(r as int - 8, (er[r as int - 8] & 0x0000ffff) | ((value as u32) << 16)) }
}
pub open spec fn ccr_with(ccr: u8, bit: u8, val: u8) -> u8 {
    if val == 0 { ccr & !(1u8 << bit) } else { ccr | (1u8 << bit) }
}

impl Cpu {
    /// everything but the register file and CCR
    pub open spec fn rest_eq(&self, o: &Cpu) -> bool {
        self.pc == o.pc && self.operating_pc == o.operating_pc && self.exit_addr == o.exit_addr && self.state_sum == o.state_sum
    }

    /// cost seam (contract of C19): no state change
    #[verifier::external_body]
    pub fn calc_state(&self, state_type: StateType, state: u8) -> (r: Result<u8, Error>)
        ensures
            r.is_ok() ==> (r.unwrap() as int) <= 14 * (state as int),
            r.is_ok() && (state_type matches StateType::N) ==> r.unwrap() == state,
    { unimplemented!() }
}

/// R8: `u8 + u8` of two charges is the repository's own (possibly overflowing) addition; outside this unit's claim
//@ fn get_nibble_opcode
        ensures
            1 <= order && order <= 4 ==> r.is_ok() && r.unwrap() == nib(opcode, order),
//@ fn read_rn_b
        ensures
            register_field <= 15 ==> r.is_ok() && r.unwrap() == lane_b(self.er@, register_field),
            register_field > 15 ==> r.is_err(),
//@ fn read_rn_w
        ensures
            register_field <= 15 ==> r.is_ok() && r.unwrap() == lane_w(self.er@, register_field),
            register_field > 15 ==> r.is_err(),
//@ fn read_rn_l
        ensures
            register_field <= 7 ==> r.is_ok() && r.unwrap() == self.er@[register_field as int],
            register_field > 7 ==> r.is_err(),
//@ fn write_rn_w
        ensures
            register_field <= 15 ==> r.is_ok() && final(self).er@ == set_w(old(self).er@, register_field, value),
            register_field > 15 ==> r.is_err() && final(self).er@ == old(self).er@,
            final(self).ccr == old(self).ccr && final(self).rest_eq(old(self)),
//@ fn write_rn_l
        ensures
            register_field <= 7 ==> r.is_ok() && final(self).er@ == old(self).er@.update(register_field as int, value),
            register_field > 7 ==> r.is_err() && final(self).er@ == old(self).er@,
            final(self).ccr == old(self).ccr && final(self).rest_eq(old(self)),
//@ fn write_ccr
        requires
            val <= 1,
        ensures
            final(self).ccr == ccr_with(old(self).ccr, target as u8, val),
            final(self).er@ == old(self).er@ && final(self).rest_eq(old(self)),
//@ fn change_ccr
        ensures
            final(self).ccr == ccr_with(old(self).ccr, target as u8, if onoff { 1u8 } else { 0u8 }),
            final(self).er@ == old(self).er@ && final(self).rest_eq(old(self)),
//@ fn read_ccr
        ensures
            r == (self.ccr >> (target as u8)) & 1,
//@ fn divxu_b
        ensures
            // DIVXU.B Rs,Rd : Rd (16 bit) / Rs (8 bit) -> quotient in the low byte, remainder in the high byte
            r.is_ok() && lane_b(old(self).er@, nib(opcode, 3)) != 0 ==> final(self).er@ == set_w(old(self).er@, nib(opcode, 4),
                ((lane_w(old(self).er@, nib(opcode, 4)) % (lane_b(old(self).er@, nib(opcode, 3)) as u16)) << 8)
                | ((lane_w(old(self).er@, nib(opcode, 4)) / (lane_b(old(self).er@, nib(opcode, 3)) as u16)) & 0xff)), // OBL:C02/DIVXU_B/verus_quotient_low_remainder_high_only_Rd_written
            final(self).rest_eq(old(self)), // OBL:C02/DIVXU_B/verus_nothing_else_changes
//@ fn divxu_w
        ensures
            // DIVXU.W Rs,ERd : ERd (32 bit) / Rs (16 bit) -> quotient in the low word, remainder in the high word
            r.is_ok() && lane_w(old(self).er@, nib(opcode, 3)) != 0 ==> final(self).er@ == old(self).er@.update((nib(opcode, 4) & 0b111) as int,
                ((old(self).er@[(nib(opcode, 4) & 0b111) as int] % (lane_w(old(self).er@, nib(opcode, 3)) as u32)) << 16)
                | ((old(self).er@[(nib(opcode, 4) & 0b111) as int] / (lane_w(old(self).er@, nib(opcode, 3)) as u32)) & 0xffff)), // OBL:C02/DIVXU_W/verus_quotient_low_remainder_high_only_ERd_written
            final(self).rest_eq(old(self)), // OBL:C02/DIVXU_W/verus_nothing_else_changes
//@ lemmas -
