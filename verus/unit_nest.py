#!/usr/bin/env python3
"""Unit `nest`: the nesting lemma (pure proof, verus/lemmas/nesting.rs); no source extraction."""
import os
HERE = os.path.dirname(os.path.abspath(__file__))


def build(canary=False, falsify=None):
    t = open(os.path.join(HERE, "lemmas", "nesting.rs")).read()
    t = t.replace("CANARY", "proof fn canary_nest() ensures false {}" if canary else "")
    if falsify == "lemma_enter_body_leave_resumes":
        t = t.replace("        leave(run(body, enter(s, v))).resumed == v, // OBL", "        false,\n        leave(run(body, enter(s, v))).resumed == v, // OBL", 1)
    return t, ["lemma_enter_body_leave_resumes"]
