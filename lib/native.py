"""native witness search / replay against the real code (kani/native.rs), see DESIGN.md 3.7"""
import json, os, re, subprocess
from core import VERIF, REPO

CACHE = os.environ.get("KOGE29_CACHE", os.path.join(VERIF, ".cache"))


def _run(env_extra, timeout=600, test="native_search"):
    env = dict(os.environ)
    env.update({"RUSTFLAGS": "--cfg koge29_verif", "KOGE29_VERIF_DIR": VERIF, "CARGO_TARGET_DIR": os.path.join(CACHE, "native-target"), "CARGO_NET_OFFLINE": "true"})
    env.update(env_extra)
    env["RUST_BACKTRACE"] = "0"  # anyhow captures a backtrace per error otherwise (millions of Err results in the enumerations)
    env["RUST_LIB_BACKTRACE"] = "0"
    p = subprocess.run(["cargo", "test", "--offline", test, "--", "--nocapture"], cwd=REPO, env=env, stdout=subprocess.PIPE, stderr=subprocess.STDOUT, text=True, timeout=timeout)
    return p.stdout


def find_witness(obl, budget_ms=8000):
    """obl.id = <prop>/<FORM>/<clause> of a per-form contract -> dict or None"""
    parts = obl.id.split("/")
    if len(parts) != 3:
        return None
    forms = json.load(open(os.path.join(VERIF, "lib", "forms.json")))["forms"]
    if parts[1] not in forms:
        return None
    out = _run({"KOGE29_FORM": parts[1], "KOGE29_CLAUSE": parts[2], "VERIF_SEED": os.environ.get("VERIF_SEED", "0"), "KOGE29_BUDGET_MS": str(budget_ms)})
    m = re.search(r"^WITNESS (\{.*\})$", out, re.M)
    if not m:
        return None
    return json.loads(m.group(1))


def find_any(form, budget_ms=5000):
    """any failing clause of a form's contract on the real code (used when the verifier ran into its limit)"""
    out = _run({"KOGE29_FORM": form, "KOGE29_CLAUSE": "any", "VERIF_SEED": os.environ.get("VERIF_SEED", "0"), "KOGE29_BUDGET_MS": str(budget_ms)})
    m = re.search(r"^WITNESS (\{.*\})$", out, re.M)
    return json.loads(m.group(1)) if m else None


def replay(witness):
    out = _run({"KOGE29_REPLAY": json.dumps(witness)})
    return "\n".join(l for l in out.splitlines() if l.startswith("REPLAY") or l.startswith("  "))


C10_CLAUSES = ["ok", "nothing_delivered_while_masked_or_idle", "oldest_request_delivered_once_through_its_own_vector", "none_lost_or_duplicated", "pending_order_preserved"]


def c10_bounded():
    """-> (histories, {clause: detail}) or None when the native build failed"""
    out = _run({"KOGE29_C10": "1"}, test="native_c10_bounded")
    m = re.search(r"^C10-BOUNDED histories=(\d+) failures=(\d+)", out, re.M)
    if not m:
        return None, out[-2000:]
    fails = {}
    for mm in re.finditer(r"^C10-FAIL (\S+) (.*)$", out, re.M):
        fails[mm.group(1)] = mm.group(2)
    return int(m.group(1)), fails


C16_CLAUSES = ["output_change_announced_with_exact_text", "message_format_and_non_decreasing_time_stamp", "last_announced_value_is_current_output", "ports_never_influence_each_other"]


def c16_bounded():
    out = _run({"KOGE29_C16": "1"}, test="native_c16_messages")
    m = re.search(r"^C16-BOUNDED histories=(\d+) failures=(\d+)", out, re.M)
    if not m:
        return None, out[-2000:]
    fails = {}
    for mm in re.finditer(r"^C16-FAIL (\S+) (.*)$", out, re.M):
        fails[mm.group(1)] = mm.group(2)
    return int(m.group(1)), fails


C09_CLAUSES = ["accessible_iff_in_the_five_regions", "unmapped_write_fails", "written_byte_is_read_back_after_all_other_writes", "written_byte_is_read_back", "no_other_location_changes"]


def c09_bounded():
    out = _run({"KOGE29_C09": "1"}, test="native_c09_bounded")
    m = re.search(r"^C09-BOUNDED addresses=(\d+) mapped=(\d+) failures=(\d+)", out, re.M)
    if not m:
        return None, out[-2000:]
    fails = {}
    for mm in re.finditer(r"^C09-FAIL (\S+) (.*)$", out, re.M):
        fails[mm.group(1)] = mm.group(2)
    return (int(m.group(1)), int(m.group(2))), fails


C17_CLAUSES = ["tcnt_counts_floor_elapsed_over_divisor", "flags_set_exactly_on_match_or_overflow", "one_request_per_enabled_event", "residual_is_elapsed_mod_divisor", "same_result_for_every_partition_of_the_elapsed_time"]


def c17_bounded():
    out = _run({"KOGE29_C17": "1", "VERIF_SEED": os.environ.get("VERIF_SEED", "0")}, test="native_c17_bounded")
    m = re.search(r"^C17-BOUNDED cases=(\d+) failures=(\d+)", out, re.M)
    if not m:
        return None, out[-2000:]
    fails = {}
    for mm in re.finditer(r"^C17-FAIL (\S+) (.*)$", out, re.M):
        fails[mm.group(1)] = mm.group(2)
    return int(m.group(1)), fails


C13_CLAUSES = ["runs_to_the_exit_address_and_reports_success", "one_sync_per_multiple_of_2000000", "kth_sync_text_carries_the_total_that_passed_the_kth_multiple", "bus_sees_the_same_total", "identical_for_every_run_of_the_same_program", "failing_instruction_makes_run_return_the_error"]


def c13_bounded():
    out = _run({"KOGE29_C13": "1"}, test="native_c13_bounded")
    m = re.search(r"^C13-BOUNDED programs=(\d+) failures=(\d+)", out, re.M)
    if not m:
        return None, out[-2000:]
    fails = {}
    for mm in re.finditer(r"^C13-FAIL (\S+) (.*)$", out, re.M):
        fails[mm.group(1)] = mm.group(2)
    return int(m.group(1)), fails


C14_CLAUSES = ["no_panic", "ok", "exactly_one_stdout_message", "payload_is_exactly_the_length_bytes_at_buffer_in_order", "registers_sp_ccr_pc_unchanged", "memory_unchanged"]


def c14_bounded():
    out = _run({"KOGE29_C14": "1"}, test="native_c14_bounded")
    m = re.search(r"^C14-BOUNDED cases=(\d+) failures=(\d+)", out, re.M)
    if not m:
        return None, out[-2000:]
    fails = {}
    for mm in re.finditer(r"^C14-FAIL (\S+) (.*)$", out, re.M):
        fails[mm.group(1)] = mm.group(2)
    return int(m.group(1)), fails
