"""Runs Kani proof harnesses of the live /repo tree and parses the per-check results."""
import fcntl, json, os, re, shutil, subprocess, sys, time

VERIF = os.path.dirname(os.path.dirname(os.path.abspath(__file__)))
CRATE = os.path.join(VERIF, "kani", "crate")
CACHE = os.environ.get("KOGE29_CACHE", os.path.join(VERIF, ".cache"))
REPO = os.environ.get("KOGE29_REPO", "/repo")


def kani_env():
    env = dict(os.environ)
    env["CARGO_NET_OFFLINE"] = "true"
    # the C07 dispatch harnesses carry one kani::stub attribute per exec target (> the default macro recursion limit)
    env["RUSTFLAGS"] = '--cfg koge29_verif -Zcrate-attr=recursion_limit="1048576"'
    env["KOGE29_VERIF_DIR"] = VERIF
    env["CARGO_TARGET_DIR"] = os.path.join(CACHE, "kani-target")
    return env


def prepare():
    os.makedirs(CACHE, exist_ok=True)
    # regenerate the form harnesses + registry, copy the repository's lock file
    subprocess.run([sys.executable, os.path.join(VERIF, "kani", "gen_forms.py")], check=True, stdout=subprocess.DEVNULL)
    # the C07 stubs and table are generated from the dispatcher's current text; a lost anchor leaves the old file
    # in place and is reported by the C07 check through the missing/failed harness
    subprocess.run([sys.executable, os.path.join(VERIF, "kani", "gen_c07.py")], check=False, stdout=subprocess.DEVNULL)
    shutil.copyfile(os.path.join(REPO, "Cargo.lock"), os.path.join(CRATE, "Cargo.lock"))


_MSG_TOK = re.compile(r'"([^"]*)"|stringify!\s*\(\s*([A-Za-z0-9_]+)\s*\)')


def clean_desc(desc):
    """'concat! ("OBL:", "C02", "/", stringify! (ADD_B_RR), "/regs")' -> 'OBL:C02/ADD_B_RR/regs'"""
    d = desc.strip()
    if d.startswith("concat!"):
        return "".join(a or b for a, b in _MSG_TOK.findall(d))
    if len(d) >= 2 and d[0] == '"' and d[-1] == '"':
        return d[1:-1]
    return d


def parse_output(text):
    """returns {harness: {status,total,failed,covers_sat,covers_total,time,failed_checks:[..]}}"""
    res = {}
    cur_by_thread = {}
    cur = None
    lines = text.splitlines()
    i = 0
    blk = None
    while i < len(lines):
        ln = lines[i]
        m = re.match(r"^(?:Thread (\d+): )?Checking harness (\S+?)\.\.\.", ln)
        if m:
            th = m.group(1) or "0"
            cur_by_thread[th] = m.group(2)
            res.setdefault(m.group(2), {"status": "UNKNOWN", "failed_checks": [], "total": 0, "failed": 0, "covers_sat": 0, "covers_total": 0, "time": 0.0, "raw": []})
            i += 1
            continue
        m = re.match(r"^Thread (\d+):\s*$", ln)
        if m:
            cur = cur_by_thread.get(m.group(1))
            i += 1
            continue
        if ln.startswith("VERIFICATION RESULT:") or ln.startswith("SUMMARY:"):
            if cur is None and len(cur_by_thread) == 1:
                cur = list(cur_by_thread.values())[0]
            blk = res.get(cur)
            i += 1
            continue
        if blk is not None:
            blk["raw"].append(ln)
            m = re.match(r"^\s*\*\* (\d+) of (\d+) failed", ln)
            if m:
                blk["failed"] = int(m.group(1))
                blk["total"] = int(m.group(2))
            m = re.match(r"^\s*\*\* (\d+) of (\d+) cover properties satisfied", ln)
            if m:
                blk["covers_sat"] = int(m.group(1))
                blk["covers_total"] = int(m.group(2))
            m = re.match(r"^Failed Checks: (.*)$", ln)
            if m:
                desc = m.group(1)
                # the description may be pretty-printed over several lines; it ends at the ` File:` line
                j = i + 1
                while j < len(lines) and not re.match(r'^\s*File: "', lines[j]) and not lines[j].startswith("Failed Checks:") and not lines[j].startswith("VERIFICATION") and j < i + 12:
                    desc += " " + lines[j].strip()
                    j += 1
                fc = {"desc": clean_desc(desc), "file": "", "line": 0, "func": ""}
                if j < len(lines):
                    m2 = re.match(r'^\s*File: "([^"]*)", line (\d+), in (.*)$', lines[j])
                    if m2:
                        fc.update(file=m2.group(1), line=int(m2.group(2)), func=m2.group(3).strip())
                blk["failed_checks"].append(fc)
            m = re.match(r"^VERIFICATION:- (\w+)", ln)
            if m:
                blk["status"] = m.group(1)
            m = re.match(r"^Verification Time: ([0-9.]+)s", ln)
            if m:
                blk["time"] = float(m.group(1))
                blk = None
                cur = None if len(cur_by_thread) > 1 else cur
        if "CBMC timed out" in ln or "timed out" in ln.lower() and "harness" in ln.lower():
            # Kani prints the timeout inside the thread block; mark the current harness
            if cur and cur in res:
                res[cur]["status"] = "TIMEOUT"
        i += 1
    return res


def run_harnesses(harnesses, jobs=14, harness_timeout=900, solver=None, log_path=None, extra=None):
    """One cargo-kani invocation for all `harnesses` (exact names, last path segment)."""
    prepare()
    lock = open(os.path.join(CACHE, "kani.lock"), "w")
    fcntl.flock(lock, fcntl.LOCK_EX)
    cmd = ["cargo", "kani", "-Z", "stubbing", "-Z", "unstable-options", "--harness-timeout", "%ds" % harness_timeout,
           "--no-assertion-reach-checks", "--output-format", "terse", "-j", str(jobs)]
    if solver:
        cmd += ["--solver", solver]
    if extra:
        cmd += extra
    if all("::" in h for h in harnesses):
        cmd += ["--exact"]
    for h in harnesses:
        cmd += ["--harness", h]
    t0 = time.time()
    p = subprocess.run(cmd, cwd=CRATE, env=kani_env(), stdout=subprocess.PIPE, stderr=subprocess.STDOUT, text=True,
                       timeout=harness_timeout * 6 + 1200)
    wall = time.time() - t0
    out = p.stdout
    if log_path:
        os.makedirs(os.path.dirname(log_path), exist_ok=True)
        open(log_path, "w").write(out)
    fcntl.flock(lock, fcntl.LOCK_UN)
    compile_error = ("error: could not compile" in out) or ("Failed to execute cargo" in out)
    parsed = parse_output(out)
    # normalise keys to the last path segment
    by_short = {}
    for k, v in parsed.items():
        by_short[k.split("::")[-1]] = v
    return {"cmd": " ".join(cmd), "wall": wall, "compile_error": compile_error, "harness": by_short, "raw": out, "rc": p.returncode}


if __name__ == "__main__":
    r = run_harnesses(sys.argv[1:], log_path=os.path.join(CACHE, "logs", "manual.log"))
    for h, v in sorted(r["harness"].items()):
        print(h, v["status"], v["total"], v["failed"], "%.1fs" % v["time"])
        for fc in v["failed_checks"]:
            print("    FAIL", fc["desc"], fc["file"], fc["line"])
    print("wall %.1f compile_error=%s" % (r["wall"], r["compile_error"]))
