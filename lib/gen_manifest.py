#!/usr/bin/env python3
"""writes /verif/MANIFEST.json from the check table (levels follow known_findings.jsonl)"""
import json, os, subprocess, sys
sys.path.insert(0, os.path.dirname(os.path.abspath(__file__)))
import main as M
from core import VERIF, REPO, load_known

TEXT = {
 "C01": ("Every MOV form's handler is proved equal to the reference semantics (value, lanes, big-endian bytes, N/Z/V, +/- register update, PC, frame) for all encodings of the form, all register/CCR values and all effective addresses through the bus seam contract.", "5.1"),
 "C02": ("Every arithmetic form proved against the manual's result/flag formulas over the full operand domains (bit-precise SAT, no sampling); DIVXU.W/MULXU.W/DIVXU.B equivalence harnesses only in the thorough tier.", "5.2"),
 "C03": ("Every logic/shift/rotate form proved bit for bit over full domains. Level `other` only because SHAL's V rule is a recorded known finding (the repository's tests encode the defect); all other obligations are proved.", "5.3"),
 "C04": ("Every bit-manipulation form (register, @ERn, @aa:8; #imm and Rn bit numbers 0-255) proved: exactly the addressed bit / flag changes.", "5.4"),
 "C05": ("Condition table (16 x 256 exhaustive by symbolic CCR), targets mod 2^24, call frames, RTS, plus the call;RTS resume lemma on the real functions.", "5.5"),
 "C06": ("TRAPA #1-#3, interrupt acceptance for every vector 1-63 and RTE proved against the exception-entry reference, plus the entry;RTE round-trip lemma.", "5.6"),
 "C07": ("The real fetch+exec is proved to call exactly the entry of the encoded form (or reject) for all first words and symbolic extension words, against generated recording stubs. Level `other` because STC.W @-ERd is a recorded known finding.", "5.7"),
 "C08": ("The `ea` obligation of every memory form: every bus access of the real handler lies in the bytes the architectural effective address names, for all 32-bit base values and displacements. Level `other` because of the STC.W @-ERd known finding.", "5.8"),
 "C09": ("Verus proves the real Bus::read/Bus::write bodies against the address-map contract with a whole-map frame (no aliasing) for all u32 addresses, plus the history lemma by induction; Kani proves the word/long helpers are big-endian compositions and that the compiled Bus::read is accessible exactly on the seam's map.", "5.9"),
 "C10": ("Verus proves request/try_interrupt against a queue view (masked => pending, unmasked => oldest delivered once through its own vector) and the history lemma delivered++pending==requested for every history; call-site scan; plus a native bounded enumeration of all 7-event histories on the real code (labelled bounded) that stays decisive when the queue code leaves Verus's subset.", "5.10"),
 "C13": ("Verus proves the loop invariant of the extracted Cpu::run: one time base (bus, peripherals, sync messages), success only at the exit address, no fetch after a failed instruction; host-time statements are mechanically shown non-interfering; an assignment scan discharges the frame assumed of the callees (nobody else assigns the time-base fields).", "5.13"),
 "C14": ("set_handler and unknown call numbers: loop-free proofs on the real trapa/trapa_emulate_mes2 incl. the composition with the real exception entry. The write call is a BOUNDED stand-in (length 0-4, fixed argument block, ASCII) and is not counted as proved.", "5.14"),
 "C15": ("All automatic panic/overflow/bounds/unwrap checks inside /repo/src over every harness's full symbolic domain + Verus overflow obligations. Level `other`: fetch().unwrap() and the STC.W @-ERd mapping are recorded known findings; the control-channel part is outside the technique.", "5.15"),
 "C16": ("Inductive representation invariant (latch/direction/pins) per operation on the real Bus for all ports and byte values, message-on-change, non-interference (Kani + Verus frame clauses) and a native bounded enumeration of the real message text/time stamps. Level `other`: the missing data latch is a recorded known finding.", "5.16"),
 "C17": ("Per-call contract of the real timer update against a tick-by-tick reference for every TCR/TCNT/TCSR/TCORx value, residual and every u8 charge (unwinding 34 is complete), plus the partition lemma and the clock-change invariant; a native bounded comparison with the same reference keeps the check decisive when a rewrite pushes CBMC over its limit.", "5.17"),
 "C19": ("The real cost functions proved equal to the statement's formula for all five bus-controller bytes, six kinds, counts 1-5 and all addresses in the quantifier.", "5.19"),
 "C20": ("The cycle mix logged through the cost seam equals the manual's table for every form, costed in the area of the right address, and the returned charge is the sum. Level `other`: BSR d:8 and STC.W @-ERd are recorded known findings.", "5.20"),
}
NOTE = {
 "step": "trusted: spec/isa*.rs oracle, anyhow shim, bus/cost/message seam stubs (justified by C09/C16/C19 units), harness-emulated fetch; Kani/CBMC/CaDiCaL",
 "verus": "trusted: extraction rules R1-R9 of verus/extract.py, external_body callee contracts listed in the evidence, Verus/Z3",
}

def main():
    commits = subprocess.run(["git", "-C", REPO, "log", "--format=%h", "--grep=^verif hooks"], stdout=subprocess.PIPE, text=True).stdout.split()
    checks = []
    for p in sorted(M.CHECKS):
        lvl = M.level_for(p)
        text, ref = TEXT[p]
        checks.append({
            "property_id": p,
            "quick_cmd": "./check %s quick" % p,
            "thorough_cmd": "./check %s thorough" % p,
            "evidence_file": "/verif/evidence/%s.json" % p,
            "replay_cmd_template": "./check replay {path}",
            "engine": "verus" if p in ("C09", "C10", "C13") else "kani",
            "level_claimed": {"category": lvl, "text": text, "design_ref": "DESIGN.md " + ref},
            "level_note": NOTE["verus"] if p in ("C09", "C10", "C13") else NOTE["step"],
            "technique": "contract-based deductive verification (" + ("Verus requires/ensures/invariants on mechanically extracted real functions" if p in ("C09", "C10", "C13") else "Kani/CBMC pre/post harnesses on the real functions") + ")",
        })
    man = {
        "version": 1,
        "setup_cmd": "python3 kani/gen_forms.py && python3 kani/gen_c07.py",
        "hooks": {
            "guard": "koge29_verif",
            "enable": "RUSTFLAGS=\"--cfg koge29_verif\" KOGE29_VERIF_DIR=/verif (set by lib/kani_run.py; the out-of-tree crate kani/crate builds /repo/src/main.rs in place with the anyhow shim)",
            "baseline_off_cmd": "cd /repo && cargo test --workspace --no-fail-fast --offline",
            "source_commits": commits,
            "add_only": True,
        },
        "engines": [
            {"name": "kani-step", "path": "kani/step.rs kani/gen_forms.py spec/", "serves_properties": ["C01", "C02", "C03", "C04", "C05", "C06", "C07", "C08", "C15", "C20"], "kind_free_text": "Kani/CBMC loop-free contract harness per instruction form against the reference semantics spec/isa*.rs"},
            {"name": "kani-custom", "path": "kani/h_*.rs hooks/", "serves_properties": ["C05", "C06", "C07", "C09", "C14", "C15", "C16", "C17", "C19"], "kind_free_text": "hand-written Kani contract harnesses on real functions (dispatcher, timer, ports, cost, MES calls, composition lemmas)"},
            {"name": "verus-units", "path": "verus/", "serves_properties": ["C09", "C10", "C13", "C15", "C16"], "kind_free_text": "Verus on functions extracted mechanically from /repo/src on every run (units bus, irq, run)"},
        ],
        "checks": checks,
        "not_applicable": [
            {"property_id": "C11", "reason": "elf::load is one 120-line function over file I/O, nom parser combinators, iterator chains and heap Strings: Verus rejects it wholesale, there is no inner function to put a contract on, and CBMC did not finish even on the concrete 1.6 KB example file (DESIGN.md 5.11); no hand-written model is proved instead"},
            {"property_id": "C12", "reason": "same function and same obstacles as C11 (the .stack/.symtab branches of elf::load); see DESIGN.md 5.12"},
            {"property_id": "C18", "reason": "the behaviour lives in closures on spawned threads around a TcpStream and in an inline string-parsing loop inside Cpu::run that is compiled out of the only testable configuration; no function boundary to attach a contract to, Kani has no threads/sockets, Verus no str/iterator/closure reasoning (DESIGN.md 5.18)"},
        ],
        "notes": "exit 0 = every obligation discharged or listed in known_findings.jsonl (KNOWN-FINDING lines); exit 1 = VIOLATION; exit 2 = inconclusive (lost anchor, tool limit) and is never reported as a violation. Level `other` is used where a recorded known finding keeps discharged < obligations; everything else about those checks is proof-level.",
    }
    json.dump(man, open(os.path.join(VERIF, "MANIFEST.json"), "w"), indent=1)
    print("MANIFEST.json written:", len(checks), "checks")

if __name__ == "__main__":
    main()
