"""Hand-written Kani contract harnesses (kani/h_*.rs) and Verus units: registry + runner."""
import os, re, sys
from core import Obl, DISCHARGED, FAILED, UNDETERMINED, VERIF
import kani_run, verus_run

H = "cpu::verif_hooks::"
T = "modules::timer8::verif_c17::"

# name, source file, regex selecting the obligation literals this harness asserts, real functions under contract
HARNESSES = [
    dict(name=H + "kctl::c05_call_then_rts_resumes", file="kani/h_ctl.rs", ids=r"^C05/call_rts/", fn="bsr_disp16, bsr_disp24, jsr (3 forms) ; rts", props=["C05", "C15"]),
    dict(name=H + "kctl::c06_interrupt_entry", file="kani/h_ctl.rs", ids=r"^(C06|C08|C15)/interrupt/", fn="Cpu::interrupt", props=["C06", "C08", "C10", "C15"]),
    dict(name=H + "kctl::c06_entry_then_rte_resumes", file="kani/h_ctl.rs", ids=r"^C06/entry_rte/", fn="trapa / Cpu::interrupt ; rte", props=["C06", "C15"]),
    dict(name=H + "kc09::c09_read_word", file="kani/h_c09.rs", ids=r"^C09/read_abs24_w/", fn="read_abs24_w", props=["C09", "C15"]),
    dict(name=H + "kc09::c09_read_long", file="kani/h_c09.rs", ids=r"^C09/read_abs24_l/", fn="read_abs24_l", props=["C09", "C15"]),
    dict(name=H + "kc09::c09_write_word", file="kani/h_c09.rs", ids=r"^C09/write_abs24_w/", fn="write_abs24_w", props=["C09", "C15"]),
    dict(name=H + "kc09::c09_write_long", file="kani/h_c09.rs", ids=r"^C09/write_abs24_l/", fn="write_abs24_l", props=["C09", "C15"]),
    dict(name=H + "kc09::c09_seam_map_is_the_real_map", file="kani/h_c09.rs", ids=r"^C09/real_Bus::read/", fn="Bus::read (compiled function, no stub)", props=["C09", "C15"]),
    dict(name=H + "kc14::c14_set_handler", file="kani/h_c14.rs", ids=r"^C14/set_handler/", fn="trapa, trapa_emulate_mes2 (id 113) ; Cpu::interrupt", props=["C14", "C15"]),
    dict(name=H + "kc14::c14_unknown_call_is_error", file="kani/h_c14.rs", ids=r"^C14/unknown_id/", fn="trapa, trapa_emulate_mes2 (other ids)", props=["C14", "C15"]),
    dict(name=H + "kc14::c14_write_len0", file="kani/h_c14.rs", ids=r"^C14/write/", fn="trapa, trapa_emulate_mes2 (id 104)", props=["C14"], bounded="C14 write call: argument block at H'FFC200, length 0..=4 (one harness per length), ASCII payload, String::from_utf8 modelled"),
    dict(name=H + "kc14::c14_write_len1", file="kani/h_c14.rs", ids=r"^C14/write/", fn="trapa, trapa_emulate_mes2 (id 104)", props=["C14"]),
    dict(name=H + "kc14::c14_write_len2", file="kani/h_c14.rs", ids=r"^C14/write/", fn="trapa, trapa_emulate_mes2 (id 104)", props=["C14"]),
    dict(name=H + "kc14::c14_write_len3", file="kani/h_c14.rs", ids=r"^C14/write/", fn="trapa, trapa_emulate_mes2 (id 104)", props=["C14"]),
    dict(name=H + "kc14::c14_write_len4", file="kani/h_c14.rs", ids=r"^C14/write/", fn="trapa, trapa_emulate_mes2 (id 104)", props=["C14"]),
    dict(name=H + "kc16::c16_write_dr", file="kani/h_c16.rs", ids=r"^C16/write_dr/", fn="Bus::write (DR arm), Bus::on_write_dr", props=["C16", "C15"]),
    dict(name=H + "kc16::c16_write_ddr", file="kani/h_c16.rs", ids=r"^C16/write_ddr/", fn="Bus::write (DDR arm), Bus::on_write_ddr", props=["C16", "C15"]),
    dict(name=H + "kc16::c16_external_input", file="kani/h_c16.rs", ids=r"^C16/external_input/", fn="Bus::write_port", props=["C16", "C15"]),
    dict(name=T + "c17_call_charge_001_024_fast", file="kani/h_c17.rs", ids=r"^C17/(update_timer8_0|update_tcr/(divisor_decoded|enable_bits_decoded))", fn="Timer8_0::update_tcr, Timer8_0::update_timer8_0", props=["C17"]),
    dict(name=T + "c17_call_charge_001_063", file="kani/h_c17.rs", ids=r"^C17/(update_timer8_0|update_tcr/(divisor_decoded|enable_bits_decoded))", fn="Timer8_0::update_tcr, Timer8_0::update_timer8_0", props=["C17", "C15"]),
    dict(name=T + "c17_call_charge_064_127", file="kani/h_c17.rs", ids=r"^C17/(update_timer8_0|update_tcr/(divisor_decoded|enable_bits_decoded))", fn="Timer8_0::update_tcr, Timer8_0::update_timer8_0", props=["C17", "C15"]),
    dict(name=T + "c17_call_charge_128_191", file="kani/h_c17.rs", ids=r"^C17/(update_timer8_0|update_tcr/(divisor_decoded|enable_bits_decoded))", fn="Timer8_0::update_tcr, Timer8_0::update_timer8_0", props=["C17", "C15"]),
    dict(name=T + "c17_call_charge_192_223", file="kani/h_c17.rs", ids=r"^C17/(update_timer8_0|update_tcr/(divisor_decoded|enable_bits_decoded))", fn="Timer8_0::update_tcr, Timer8_0::update_timer8_0", props=["C17", "C15"]),
    dict(name=T + "c17_call_charge_224_255", file="kani/h_c17.rs", ids=r"^C17/(update_timer8_0|update_tcr/(divisor_decoded|enable_bits_decoded))", fn="Timer8_0::update_tcr, Timer8_0::update_timer8_0", props=["C17", "C15"]),
    dict(name=T + "c17_partition_lemma", file="kani/h_c17.rs", ids=r"^C17/lemma/", fn="(arithmetic lemma over the per-call contract)", props=["C17"]),
    dict(name=T + "c17_clock_change_keeps_phase_invariant", file="kani/h_c17.rs", ids=r"^C17/update_tcr/(divisor_follows_last_write|no_bunched)", fn="Timer8_0::update_tcr", props=["C17", "C15"]),
    dict(name=H + "kc07::c07_dispatch_00_0f", file="kani/h_c07.rs", ids=r"^C07/exec/", fn="Cpu::fetch, Cpu::exec", props=["C07", "C15"]),
    dict(name=H + "kc07::c07_dispatch_10_3f", file="kani/h_c07.rs", ids=r"^C07/exec/", fn="Cpu::fetch, Cpu::exec", props=["C07", "C15"]),
    dict(name=H + "kc07::c07_dispatch_40_6f", file="kani/h_c07.rs", ids=r"^C07/exec/", fn="Cpu::fetch, Cpu::exec", props=["C07", "C15"]),
    dict(name=H + "kc07::c07_dispatch_70_7f", file="kani/h_c07.rs", ids=r"^C07/exec/", fn="Cpu::fetch, Cpu::exec", props=["C07", "C15"]),
    dict(name=H + "kc07::c07_dispatch_80_ff", file="kani/h_c07.rs", ids=r"^C07/exec/", fn="Cpu::fetch, Cpu::exec", props=["C07", "C15"]),
    dict(name=H + "kc07::c07_mov_b_rejects_movfpe_movtpe", file="kani/h_c07.rs", ids=r"^C07/mov_b/", fn="Cpu::mov_b, mov_b_abs_16_or_24", props=["C07", "C15"]),
    dict(name=H + "kc07::c07_stc_w_disp24_rejects_ldc", file="kani/h_c07.rs", ids=r"^C07/stc_w_disp24/", fn="Cpu::stc_w_disp24", props=["C07", "C15"]),
    dict(name=H + "kc07::c15_unimplemented_opcode_at_any_code_address", file="kani/h_c07.rs", ids=r"^C15/exec/", fn="Cpu::exec (unimpl! exits)", props=["C15"]),
    dict(name=H + "kc15::c15_fetch_any_pc", file="kani/h_c15.rs", ids=r"^C15/fetch/", fn="Cpu::fetch", props=["C15"]),
    dict(name=T + "c15_timer_any_tcr_write", file="kani/h_c17.rs", ids=r"^C15/timer/", fn="Timer8_0::update_tcr (any byte), Timer8_0::update_timer8_0", props=["C15"]),
    dict(name=H + "kc19::c19_cost_formula", file="kani/h_c19.rs", ids=r"^C19/calc_state_with_addr/", fn="Cpu::calc_state_with_addr, Cpu::get_wait_state, Bus::get_area_index, Bus::check_dram_area, Bus::read", props=["C19", "C15"], seam_for=["C20"]),
    dict(name=H + "kc19::c19_calc_state", file="kani/h_c19.rs", ids=r"^C19/calc_state/", fn="Cpu::calc_state", props=["C19", "C15"], seam_for=["C20"]),
    dict(name=H + "kc19::c19_wait_and_area", file="kani/h_c19.rs", ids=r"^C19/(get_wait_state|get_area_index|check_dram_area)/", fn="Cpu::get_wait_state, Bus::get_area_index, Bus::check_dram_area", props=["C19", "C15"], seam_for=["C20"]),
]

CUSTOM_TRUSTED = {
    "kani/h_ctl.rs": ["bus/cost seam stubs (as in the instruction harnesses)", "spec/isa.rs::exception_entry"],
    "kani/h_c09.rs": ["bus seam stub for Bus::read/Bus::write (the real bodies are the Verus unit `bus`)"],
    "kani/h_c14.rs": ["bus seam, message seam (Cpu::send_message, Cpu::send_stdout_message record instead of formatting)", "console output via print! is not observable under the verifier"],
    "kani/h_c16.rs": ["message seam Bus::send_io_port_value (records port and value; message text `ioport:<port>:<value>:<states>` not checked)"],
    "kani/h_c17.rs": ["InterruptController::request_interrupt stubbed by C10's contract (counts per vector)", "tick-by-tick reference in kani/h_c17.rs written from the C17 statement"],
    "kani/h_c07.rs": ["every first-level target of exec replaced by a recording stub generated from the dispatcher's text (kani/gen_c07.py); decode table of spec/isa.rs"],
    "kani/h_c19.rs": ["cost formula spec_unit() in kani/h_c19.rs written from the C19 statement"],
}


def auto_id(harness, fc):
    """id of an automatic (panic/overflow/bounds) check: function based, no line numbers, so that harmless edits do not move it"""
    fn = fc["func"].split("::")[-1]
    desc = fc["desc"]
    if "placeholder message" in desc:
        desc = "panic"
    if fc["file"].startswith("/repo"):
        return "C15/%s/%s" % (fn, desc)
    return "C15/%s/%s/%s" % (harness, fn, desc)


def literals(path):
    src = open(os.path.join(VERIF, path)).read()
    ids = set(re.findall(r'"OBL:([^"]+)"', src))
    # per-form obligations generated by unimpl_obligations! in h_c07.rs
    m = re.search(r'unimpl_obligations!\(exp\.form, ok, \[([^\]]*)\]\)', src)
    if m:
        ids = {i for i in ids if not i.endswith("C07/exec/")}
        for u in re.findall(r"\w+", m.group(1)):
            ids.add("C07/exec/%s/rejected_never_run_as_another_instruction" % u)
    return sorted(i for i in ids if "/" in i and not i.endswith("/"))


def for_prop(h, prop):
    """a harness serves a property either as its own or as the discharge of a seam contract the property's harnesses assume"""
    return prop in h["props"] or prop in h.get("seam_for", [])


def harness_names(prop):
    return [h["name"] for h in HARNESSES if for_prop(h, prop)]


def run_custom(rep, prop, only=None, harness_timeout=900, r=None):
    hs = [h for h in HARNESSES if for_prop(h, prop) and (only is None or only(h))]
    if not hs:
        return None
    log = os.path.join(kani_run.CACHE, "logs", "%s-custom.log" % prop)
    if r is None:
        r = kani_run.run_harnesses([h["name"] for h in hs], harness_timeout=harness_timeout, log_path=log)
        rep.cmds.append("(cd kani/crate && " + r["cmd"] + ")")
        rep.logs.append(log)
    if r["compile_error"]:
        rep.inconclusive.append("kani-compile-error; see " + log)
    status = {}  # oid -> list of (status, detail, unit, secs)
    for h in hs:
        short = h["name"].split("::")[-1]
        res = r["harness"].get(short)
        ids = [i for i in literals(h["file"]) if re.search(h["ids"], i)]
        if not ids:
            rep.inconclusive.append("lost-obligation: harness %s has no obligation literal matching %s" % (short, h["ids"]))
        done = res is not None and res["status"] in ("SUCCESSFUL", "FAILED") and res["total"] > 0
        failed = {}
        if res:
            for fc in res["failed_checks"]:
                if fc["desc"].startswith("OBL:"):
                    failed[fc["desc"][4:]] = fc
        for oid in ids:
            if not oid.startswith(prop + "/") and prop not in h.get("seam_for", []):
                continue
            if not done:
                st = (UNDETERMINED, "harness %s did not complete: %s" % (short, res["status"] if res else "no result"))
            elif oid in failed:
                fc = failed[oid]
                st = (FAILED, "CBMC: FAILURE of check '%s' at %s:%d (harness %s)" % (fc["desc"], fc["file"], fc["line"], short))
            else:
                st = (DISCHARGED, "")
            status.setdefault(oid, []).append(st + (short, h["fn"], res["time"] if res else 0.0))
        if not done:
            rep.inconclusive.append("harness %s: %s" % (short, res["status"] if res else "no result"))
            continue
        rep.vacuity.append({"harness": short, "covers_satisfied": res["covers_sat"], "covers_total": res["covers_total"], "checks": res["total"]})
        if res["covers_total"] == 0 or res["covers_sat"] != res["covers_total"]:
            rep.inconclusive.append("vacuity guard: harness %s satisfied %d of %d cover points" % (short, res["covers_sat"], res["covers_total"]))
        for oid, fc in failed.items():
            if oid.startswith("SELF/"):
                rep.inconclusive.append("harness self-check failed: " + oid)
        others = [fc for fc in res["failed_checks"] if not fc["desc"].startswith("OBL:")]
        if prop == "C15":
            rep.auto_checks += max(0, res["total"] - len(ids))
            for fc in others:
                oid = auto_id(short, fc)
                if not any(x["id"] == oid for x in rep.extra_failed):
                    rep.auto_failed += 1
                    rep.extra_failed.append({"id": oid, "detail": "CBMC: FAILURE of automatic check '%s' at %s:%d in %s (harness %s)" % (fc["desc"], fc["file"], fc["line"], fc["func"], short), "unit": short, "function": fc["func"]})
        else:
            for fc in others:
                # an automatic check failing inside a harness of this property truncates the paths the named
                # obligations see; report it here as well so that it cannot hide
                oid = "%s/%s/auto:%s@%s:%d" % (prop, short, fc["desc"], os.path.relpath(fc["file"], "/repo") if fc["file"].startswith("/repo") else fc["file"], fc["line"])
                rep.extra_failed.append({"id": oid, "detail": "CBMC: FAILURE of automatic check '%s' at %s:%d in %s" % (fc["desc"], fc["file"], fc["line"], fc["func"]), "unit": short, "function": fc["func"]})
        if h.get("bounded"):
            rep.bounds.append(h["bounded"])
        for t in CUSTOM_TRUSTED.get(h["file"], []):
            if t not in rep.trusted:
                rep.trusted.append(t)
        if h["fn"] not in rep.functions:
            rep.functions.append(h["fn"])
    for oid, sts in status.items():
        o = rep.add(Obl(oid, "kani/cbmc+cadical", unit=",".join(s[2] for s in sts), fn=sts[0][3]))
        o.seconds = sum(s[4] for s in sts)
        if any(s[0] == FAILED for s in sts):
            o.status = FAILED
            o.detail = "; ".join(s[1] for s in sts if s[0] == FAILED)
        elif all(s[0] == DISCHARGED for s in sts):
            o.status = DISCHARGED
        else:
            o.detail = "; ".join(s[1] for s in sts if s[1])
    base = ["kani/shims/anyhow payload-free model", "Kani 0.68 / CBMC 6.11 / CaDiCaL; rustc (Kani toolchain)"]
    for t in base:
        if t not in rep.trusted:
            rep.trusted.append(t)
    return r


VERUS_TRUSTED = {
    "nest": ["abstract machine of verus/lemmas/nesting.rs (enter/leave/other) as the composition of the single-step contracts; no code is extracted in this unit"],
    "div": ["extraction rules R1-R4 (visibility, anyhow->Error, with_context/log dropped); enums CCR/StateType extracted with #[derive(Clone, Copy)] added",
            "external_body: Cpu::calc_state (cost seam; contract: result <= 14*count, internal cycles cost exactly count - what C19 proves of the real function)",
            "the contracts of divxu_b/divxu_w state the manual's definition with the mathematical / and % of the operands named by the 4-bit fields"],
    "bus": ["extraction rules R1-R6 (verus/extract.py): visibility, anyhow->Error, with_context dropped, log dropped, ModuleManager link/message channel opaque",
            "external_body: Bus::notify_modules (write_registers has no access path to Bus), Bus::send_io_port_value (message seam)"],
    "irq": ["extraction rules R1-R6,R9", "external_body: Cpu::interrupt with the contract 'enters through the given vector once, leaves the queue alone' (its body: Kani harness c06_interrupt_entry)",
            "vstd specification of VecDeque::push_back/pop_front"],
    "run": ["extraction rules R1-R9 (unit = cfg(test) configuration without the socket block)",
            "external_body callee contracts: fetch, exec, try_interrupt, init_registers, send_ready_message, send_sync_message, timer8_0_link (the call of update_timer8_0 inside update_modules), print_er (frame: none touches the time-base fields)",
            "host-time statements dropped after a mechanical non-interference check (no `self`, assign host locals only)",
            "assume(self.state_sum < 2^62) at the loop head; global size_of usize == 8"],
}


def run_verus_unit(rep, prop, unit, fn_names, id_prefix=None, seam=False):
    """id_prefix: which obligations of the unit are registered (default: those of the property);
    seam=True: the unit discharges a seam contract that the property's own harnesses assume - if the unit is
    inconclusive (lost anchor) that is recorded as an undischarged assumption, the property's own verdict stands"""
    res = verus_run.unit(unit)
    rep.cmds.append(res.get("cmd", "verus <%s unit>" % unit))
    rep.logs.append(res["path"])
    if res["status"] != "ok" and seam:
        rep.assumptions.append("seam contract NOT re-discharged in this run: verus unit %s: %s (the check of the seam's own property reports it)" % (unit, res["status"]))
        return res
    if res["status"] != "ok":
        rep.inconclusive.append("verus unit %s: %s" % (unit, res["status"]))
        for e in res.get("errors", [])[:3]:
            rep.notes.append("verus: %s (generated line %d)" % (e[0], e[1]))
        return res
    for oid, (st, detail) in res["obls"].items():
        if not oid.startswith((id_prefix or prop) + "/"):
            continue
        o = rep.add(Obl(oid, "verus/z3", unit="verus:" + unit, fn=fn_names))
        o.status = DISCHARGED if st == "discharged" else FAILED
        o.detail = detail
        o.seconds = res.get("smt_s", 0.0)
    # implicit obligations of the unit's functions (overflow, index bounds, call preconditions)
    if prop == "C15":
        rep.auto_checks += res["auto_ok"] + len(res["auto_failed"])
        for a in res["auto_failed"]:
            rep.auto_failed += 1
            rep.extra_failed.append({"id": "C15/verus:%s/%s@line:%s" % (unit, a["msg"], a["text"][:60]), "detail": a["block"], "unit": "verus:" + unit, "function": fn_names})
    else:
        for a in res["auto_failed"]:
            rep.extra_failed.append({"id": "%s/verus:%s/auto:%s@%s" % (prop, unit, a["msg"], a["text"][:60]), "detail": a["block"], "unit": "verus:" + unit, "function": fn_names})
    ok = verus_run.canary(unit)
    rep.vacuity.append({"verus_unit": unit, "canary_ensures_false_fails": ok, "functions_verified": res.get("verified", 0)})
    if not ok:
        rep.inconclusive.append("vacuity guard: canary `ensures false` of verus unit %s did not fail" % unit)
    if rep.tier == "thorough":
        names, bad = verus_run.falsify_each(unit)
        rep.vacuity.append({"verus_unit": unit, "falsified_one_at_a_time": names, "still_verified_with_ensures_false": bad})
        if bad:
            rep.inconclusive.append("vacuity guard: %s of unit %s still verify with `ensures false` (unsatisfiable precondition?)" % (bad, unit))
    for t in VERUS_TRUSTED.get(unit, []) + ["Verus 0.2026.09.13 / Z3 (bundled); rustc 1.98.1"]:
        if t not in rep.trusted:
            rep.trusted.append(t)
    if fn_names not in rep.functions:
        rep.functions.append(fn_names)
    return res
