#!/usr/bin/env python3
import json, os, sys
sys.path.insert(0, os.path.dirname(os.path.abspath(__file__)))
from core import Report
import step_check

LEVEL_PROOF = "proof"

STEP_TECH = "contract-based deductive verification: per-form Hoare contracts {pre} real handler {post == spec/isa.rs} discharged by Kani/CBMC (loop-free, full symbolic domain, bus/cost seam contracts)"


def check_step_only(prop, tier):
    rep = Report(prop, tier, LEVEL_PROOF, STEP_TECH)
    step_check.run_step(rep, prop)
    return rep.finish()


CHECKS = {
    "C01": check_step_only,
    "C02": check_step_only,
    "C03": check_step_only,
    "C04": check_step_only,
    "C05": check_step_only,
    "C06": check_step_only,
    "C08": check_step_only,
    "C20": check_step_only,
}


def main():
    if len(sys.argv) < 2:
        print("usage: check <ID> quick|thorough | check replay <file>")
        return 2
    if sys.argv[1] == "replay":
        print(open(sys.argv[2]).read())
        return 0
    prop = sys.argv[1]
    tier = sys.argv[2] if len(sys.argv) > 2 else os.environ.get("VERIF_TIER", "quick")
    if prop == "all":
        rc = 0
        for p in sorted(CHECKS):
            rc = max(rc, CHECKS[p](p, tier))
        return rc
    if prop not in CHECKS:
        print("unknown property", prop)
        return 2
    return CHECKS[prop](prop, tier)


if __name__ == "__main__":
    sys.exit(main())
