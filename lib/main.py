#!/usr/bin/env python3
"""./check <ID> quick|thorough   |   ./check replay <file>   |   ./check all quick"""
import json, os, re, subprocess, sys
sys.path.insert(0, os.path.dirname(os.path.abspath(__file__)))
from core import Report, Obl, DISCHARGED, FAILED, UNDETERMINED, VERIF, REPO, load_known
import step_check, custom_check, kani_run, native

STEP_TECH = ("contract-based deductive verification: per-form Hoare contracts {pre} real handler {post == spec/isa.rs}, "
             "discharged by Kani/CBMC (loop-free harnesses over the full symbolic input domain, bus/cost seam contracts)")
VERUS_TECH = "contract-based deductive verification: requires/ensures/invariants on functions extracted mechanically from /repo/src, discharged by Verus/Z3"

# properties with a genuine defect recorded (not repaired) claim `other`: every obligation but the listed ones is proved
def level_for(prop):
    has_known = any(k.get("property") == prop and k.get("status") == "known" for k in load_known())
    if prop == "C14":
        return "other"
    return "other" if has_known else "proof"


def new_report(prop, tier, tech):
    return Report(prop, tier, level_for(prop), tech)


def run_kani_both(rep, prop, harness_timeout=1500):
    """one cargo-kani invocation for the per-form groups and the hand-written harnesses of this property"""
    names = step_check.harness_names(prop, rep.tier) + custom_check.harness_names(prop)
    log = os.path.join(kani_run.CACHE, "logs", "%s-kani.log" % prop)
    r = kani_run.run_harnesses(names, harness_timeout=harness_timeout, log_path=log)
    rep.cmds.append("(cd kani/crate && " + r["cmd"] + ")")
    rep.logs.append(log)
    step_check.run_step(rep, prop, r=r)
    custom_check.run_custom(rep, prop, r=r)
    return r


BUS_FNS = "Bus::read, Bus::write, Bus::read_ddr, Bus::write_dr, Bus::read_dr, Bus::write_port, Bus::on_write_ddr, Bus::on_write_dr"


def bus_seam(rep, prop):
    """the per-form harnesses assume the bus seam (plain byte storage over exactly the mapped addresses); the real
    Bus::read / Bus::write are held to that contract by the Verus unit `bus` (C09 obligations) in the same check"""
    custom_check.run_verus_unit(rep, prop, "bus", BUS_FNS, id_prefix="C09", seam=True)
    rep.notes.append("seam contracts assumed by the per-form harnesses and discharged in this same run: bus seam <- Verus unit `bus` (C09/* obligations)"
                     + ("; cost seam <- the C19 harnesses on the real cost functions (C19/* obligations)" if prop == "C20" else ""))


def check_step_only(prop, tier):
    rep = new_report(prop, tier, STEP_TECH)
    if prop == "C20":
        run_kani_both(rep, prop)
    else:
        step_check.run_step(rep, prop)
    bus_seam(rep, prop)
    return rep.finish(native.find_witness)


def check_step_plus_custom(prop, tier):
    rep = new_report(prop, tier, STEP_TECH + " + composition lemmas (call;return / entry;RTE) as Kani harnesses over the real functions")
    run_kani_both(rep, prop)
    bus_seam(rep, prop)
    if prop in ("C05", "C06"):
        custom_check.run_verus_unit(rep, prop, "nest", "(pure lemma over the single-step contracts: verus/lemmas/nesting.rs)")
        rep.assumptions.append("arbitrary nesting depth: mechanised as a Verus lemma by structural induction over properly nested programs (verus/lemmas/nesting.rs); what stays argued on paper is the abstraction step - that the single-step contracts proved on the real code instantiate enter/leave/other, and that the body of a routine or handler stores nothing at or above its entry SP")
    return rep.finish(native.find_witness)


def check_c07(prop, tier):
    rep = new_report(prop, tier, "contract on the real Cpu::fetch+Cpu::exec against recording stubs for every dispatch target (Kani/CBMC, all first words x symbolic extension words) + per-form contracts of the STC entries")
    run_kani_both(rep, prop)
    bus_seam(rep, prop)
    rep.assumptions.append("total instruction length = words consumed by the dispatcher (proved here) + operand words consumed by the entry (the `pc` clause of each form's contract under C01-C06)")
    rep.assumptions.append("second-level dispatch inside the entries (mov_b, mov_w, mov_l, add_*, sub_*, bcc, jmp, jsr, bit ops on memory) is exercised by the per-form contracts, which call those entries")
    return rep.finish(native.find_witness)


def check_c09(prop, tier):
    rep = new_report(prop, tier, VERUS_TECH + " (unit bus: Bus::read/Bus::write/ioport helpers, whole-map frame contract, history lemma by induction) + Kani harnesses for the big-endian word/long helpers")
    custom_check.run_verus_unit(rep, prop, "bus", "Bus::read, Bus::write, Bus::read_ddr, Bus::write_dr, Bus::read_dr, Bus::write_port, Bus::on_write_ddr, Bus::on_write_dr")
    custom_check.run_custom(rep, prop)
    n, fails = native.c09_bounded()
    if n is None:
        rep.inconclusive.append("native bounded C09 enumeration did not build/run: %s" % str(fails)[-300:])
    else:
        for c in native.C09_CLAUSES:
            o = rep.add(Obl("C09/bounded/" + c, "native exhaustive enumeration over the address map (bounded: fixed value patterns)", unit="native_c09_bounded", fn="Bus::read, Bus::write (real, with the peripheral link of a real Cpu)"))
            if c in fails:
                o.status = FAILED
                o.detail = fails[c]
                o.witness = {"access": fails[c]}
            else:
                o.status = DISCHARGED
        rep.bounds.append("C09/bounded/*: all 2^24 addresses + 9 above classified; all %d accessible addresses except the port registers written with an address-dependent pattern, read back after all other writes, rewritten with 26 neighbours watched (BOUNDED natively: fixed value patterns; not counted as proved)" % n[1])
        rep.cmds.append("cargo test --offline native_c09_bounded (RUSTFLAGS=--cfg koge29_verif, KOGE29_C09=1)")
    rep.assumptions.append("timer register bytes are additionally written by the owning peripheral: update_timer8_0 writes TCNT0/TCSR0 only (C17 frame obligation)")
    rep.assumptions.append("machine integers are not treated as mathematical: Verus keeps u32/usize with overflow obligations")
    return rep.finish(native.find_witness)


def scan_call_sites(rep):
    """C10: only at an instruction boundary - try_interrupt/interrupt have exactly one call site each"""
    import glob
    texts = {}
    for f in glob.glob(os.path.join(REPO, "src/**/*.rs"), recursive=True):
        src = open(f).read()
        i = src.find("#[cfg(test)]\nmod tests")
        src = src if i < 0 else src[:i]
        texts[os.path.relpath(f, REPO)] = src
    def sites(pat):
        out = []
        for f, s in texts.items():
            for m in re.finditer(pat, s):
                ln = s.count("\n", 0, m.start()) + 1
                out.append("%s:%d" % (f, ln))
        return out
    a = sites(r"\.try_interrupt\(")
    o = rep.add(Obl("C10/scan/try_interrupt_only_at_the_loop_head_of_run", "call-graph scan", unit="scan", fn="Cpu::run"))
    run_src = texts.get("src/cpu.rs", "")
    # structural, not textual: the single call site lies inside `fn run`, inside its loop, before the fetch of the
    # same iteration and after the previous iteration's exec (comments and blank lines do not matter)
    ok = False
    ia = run_src.find("pub fn run(&mut self)")
    ib = run_src.find("pub fn fetch(&mut self)")
    if len(a) == 1 and a[0].startswith("src/cpu.rs") and ia >= 0 and ib > ia:
        body = run_src[ia:ib]
        il = body.find("loop {")
        it = body.find(".try_interrupt(")
        ifetch = body.find("self.fetch()")
        iexec = body.find("self.exec(")
        ok = 0 <= il < it < ifetch < iexec
    o.status = DISCHARGED if ok else FAILED
    o.detail = "call sites: %s" % a
    b = sites(r"\.interrupt\(")
    o = rep.add(Obl("C10/scan/interrupt_only_from_try_interrupt", "call-graph scan", unit="scan", fn="Cpu::try_interrupt"))
    o.status = DISCHARGED if (len(b) == 1 and b[0].startswith("src/cpu/interrupt_controller.rs")) else FAILED
    o.detail = "call sites: %s" % b
    c = sites(r"\.request_interrupt\(")
    o = rep.add(Obl("C10/scan/requests_raised_only_by_peripherals", "call-graph scan", unit="scan", fn="Timer8_0::update_timer8_0"))
    o.status = DISCHARGED if (c and all(x.startswith("src/modules/") for x in c)) else FAILED
    o.detail = "call sites: %s" % c
    d = sites(r"interrupt_requests")
    o = rep.add(Obl("C10/scan/queue_touched_only_by_request_and_try", "call-graph scan", unit="scan", fn="InterruptController"))
    o.status = DISCHARGED if all(x.startswith("src/cpu/interrupt_controller.rs") for x in d) else FAILED
    o.detail = "uses: %s" % d


def check_c10(prop, tier):
    rep = new_report(prop, tier, VERUS_TECH + " (unit irq: request_interrupt/try_interrupt against a queue view; history lemma delivered++pending==requested by induction) + mechanical call-site scan")
    custom_check.run_verus_unit(rep, prop, "irq", "InterruptController::request_interrupt, Cpu::try_interrupt")
    # bounded stand-in on the real code (native exhaustive enumeration of short histories); labelled bounded,
    # it keeps the exactly-once clauses decided when the queue code leaves Verus's subset
    n, fails = native.c10_bounded()
    if n is None:
        rep.inconclusive.append("native bounded C10 enumeration did not build/run: %s" % str(fails)[-300:])
    else:
        for c in native.C10_CLAUSES:
            o = rep.add(Obl("C10/bounded/" + c, "native exhaustive enumeration (bounded)", unit="native_c10_bounded", fn="request_interrupt, try_interrupt, interrupt on a real Cpu"))
            if c in fails:
                o.status = FAILED
                o.detail = "history " + fails[c]
                o.witness = {"history": fails[c], "legend": "events 0,1,2 = request vector 1,36,63; 3 = instruction boundary with I clear; 4 = boundary with I set"}
            else:
                o.status = DISCHARGED
        rep.bounds.append("C10/bounded/*: all %d histories of 7 events over {request vector 1|36|63, boundary unmasked, boundary masked} on the real code, natively (BOUNDED, not counted as proved; the unbounded argument is the Verus unit irq)" % n)
        rep.cmds.append("cargo test --offline native_c10_bounded (RUSTFLAGS=--cfg koge29_verif, KOGE29_C10=1)")
    scan_call_sites(rep)
    rep.assumptions.append("Cpu::interrupt is external_body in the Verus unit; its contract (enters through the vector of the number it is given, never touches the queue) is what the Kani harness c06_interrupt_entry proves of the real body (cross-engine assume/guarantee)")
    rep.assumptions.append("'the program computes the same result as without interrupts' is a corollary of C06's entry;RTE round trip; not separately mechanised")
    return rep.finish(native.find_witness)


def scan_time_base(rep):
    """C13: the frame the Verus unit assumes of every callee of run - nobody else assigns the time-base fields"""
    import glob
    texts = {}
    for f in glob.glob(os.path.join(REPO, "src/**/*.rs"), recursive=True):
        src = open(f).read()
        i = src.find("#[cfg(test)]\nmod tests")
        texts[os.path.relpath(f, REPO)] = src if i < 0 else src[:i]
    def assigns(field):
        out = []
        for f, s in texts.items():
            if f.endswith("testhelper.rs"):
                continue
            for m in re.finditer(r"\b%s\s*(?:[-+*/]?=)(?!=)" % re.escape(field), s):
                ln = s.count("\n", 0, m.start()) + 1
                line = s.splitlines()[ln - 1].strip()
                if line.startswith("//"):
                    continue
                out.append("%s:%d: %s" % (f, ln, line[:60]))
        return out
    def in_run(site):
        f, ln = site.split(":")[0], int(site.split(":")[1])
        if f != "src/cpu.rs":
            return False
        src = texts[f]
        a = src.find("pub fn run(&mut self)")
        b = src.find("pub fn fetch(&mut self)")
        la = src.count("\n", 0, a) + 1
        lb = src.count("\n", 0, b) + 1
        return la <= ln < lb
    checks = [
        ("state_sum_assigned_only_in_run", [x for x in assigns("state_sum") if "cpu_state_sum" not in x.split(": ", 1)[1].split("=")[0]], lambda x: in_run(x) or "state_sum: 0" in x),
        ("bus_cpu_state_sum_assigned_only_in_run", assigns("cpu_state_sum"), lambda x: in_run(x) or "cpu_state_sum: 0" in x),
        ("exit_addr_assigned_only_by_the_loader", assigns("exit_addr"), lambda x: x.startswith("src/elf.rs") or "exit_addr: 0" in x),
    ]
    for name, sites, ok in checks:
        o = rep.add(Obl("C13/scan/" + name, "assignment scan", unit="scan", fn="(all of /repo/src, test modules excluded)"))
        bad = [x for x in sites if not ok(x)]
        o.status = DISCHARGED if (sites and not bad) else FAILED
        o.detail = "assignments: %s ; not allowed: %s" % (sites, bad)


def check_c13(prop, tier):
    rep = new_report(prop, tier, VERUS_TECH + " (unit run: loop invariant on the time base of the extracted Cpu::run) + mechanical scan that no other code assigns the time-base fields")
    custom_check.run_verus_unit(rep, prop, "run", "Cpu::run, ModuleManager::update_modules")
    scan_time_base(rep)
    # bounded stand-in through the real run() with the message-capture hook (real `sync:<total>` text, determinism)
    n, fails = native.c13_bounded()
    if n is None:
        rep.inconclusive.append("native bounded C13 stand-in did not build/run: %s" % str(fails)[-300:])
    else:
        for c in native.C13_CLAUSES:
            o = rep.add(Obl("C13/bounded/" + c, "native execution of hand-assembled guest programs (bounded)", unit="native_c13_bounded", fn="Cpu::run, Cpu::send_sync_message, Cpu::send_message (real)"))
            if c in fails:
                o.status = FAILED
                o.detail = fails[c]
                o.witness = {"case": fails[c]}
            else:
                o.status = DISCHARGED
        rep.bounds.append("C13/bounded/*: %d hand-assembled guest programs (nested counted loops with a subroutine call and a port write, totals on both sides of 0, 4 and 9 sync thresholds; one failing program) run twice through the real Cpu::run (BOUNDED, natively, not counted as proved)" % n)
        rep.cmds.append("cargo test --offline native_c13_bounded (RUSTFLAGS=--cfg koge29_verif, KOGE29_C13=1)")
    rep.assumptions.append("whole-run determinism is a corollary: every callee is safe Rust without clock or randomness and the host-time statements are proved non-interfering syntactically; stated, not mechanised")
    rep.assumptions.append("termination is not claimed (guest programs may loop)")
    rep.assumptions.append("cfg(test) configuration: the control-socket block is compiled out (C18 is not applicable to this technique)")
    return rep.finish(native.find_witness)


def check_custom_only(prop, tier):
    tech = {
        "C14": "Kani/CBMC contract harnesses on the real trapa/trapa_emulate_mes2 (bus and message seams): loop-free and complete for set_handler and unknown ids; BOUNDED stand-in for the write call",
        "C16": "Kani/CBMC: inductive representation invariant (latch, direction, pins) per operation on the real Bus + Verus frame obligations of the bus unit",
        "C17": "Kani/CBMC: per-call contract of the real update_tcr/update_timer8_0 against a tick-by-tick reference; unwinding bound 34 justified by operand width (unwinding assertions on) + partition lemma",
        "C19": "Kani/CBMC loop-free contract harnesses on the real calc_state_with_addr/calc_state/get_wait_state/get_area_index/check_dram_area over all bus-controller settings",
    }[prop]
    rep = new_report(prop, tier, tech)
    custom_check.run_custom(rep, prop, harness_timeout=1500)
    if prop == "C16":
        custom_check.run_verus_unit(rep, prop, "bus", "Bus::write_port, Bus::on_write_ddr, Bus::on_write_dr (frame)")
        rep.assumptions.append("histories: the invariant is inductive, so it holds after every interleaving of DDR writes, DR writes and pin changes; time stamps are Bus::cpu_state_sum, which only Cpu::run assigns (monotone, C13)")
        rep.assumptions.append("message text is produced by format!(\"ioport:{:x}:{:x}:{}\") in Bus::send_io_port_value, which is stubbed under the verifier; the text, the time stamps and the announce-on-change rule are additionally enumerated natively on the real code (bounded, below)")
        n, fails = native.c16_bounded()
        if n is None:
            rep.inconclusive.append("native bounded C16 enumeration did not build/run: %s" % str(fails)[-300:])
        else:
            for c in native.C16_CLAUSES:
                o = rep.add(Obl("C16/bounded/" + c, "native exhaustive enumeration (bounded)", unit="native_c16_messages", fn="Bus::write, Bus::write_port, Bus::send_io_port_value, Bus::send_message (real channel)"))
                if c in fails:
                    o.status = FAILED
                    o.detail = fails[c]
                    o.witness = {"history": fails[c], "legend": "history code: base-12 digits, digit/4 = 0 write DDR, 1 write DR, 2 external input; digit%4 indexes values [00,ff,0f,a5]"}
                else:
                    o.status = DISCHARGED
            rep.bounds.append("C16/bounded/*: all %d histories of depth 4 over {write DDR, write DR, external input} x {00,ff,0f,a5} on each of the 11 ports, real message text through a real channel (BOUNDED, natively, not counted as proved)" % n)
            rep.cmds.append("cargo test --offline native_c16_messages (RUSTFLAGS=--cfg koge29_verif, KOGE29_C16=1)")
    if prop == "C17":
        n, fails = native.c17_bounded()
        if n is None:
            rep.inconclusive.append("native bounded C17 stand-in did not build/run: %s" % str(fails)[-300:])
        else:
            for c in native.C17_CLAUSES:
                o = rep.add(Obl("C17/bounded/" + c, "native randomized comparison with the tick reference (bounded)", unit="native_c17_bounded", fn="Timer8_0::update_tcr, update_timer8_0, InterruptController::request_interrupt (real)"))
                if c in fails:
                    o.status = FAILED
                    o.detail = fails[c]
                    o.witness = {"case": fails[c]}
                else:
                    o.status = DISCHARGED
            rep.bounds.append("C17/bounded/*: %d pseudo-random timer configurations (seed VERIF_SEED) on the real code against the tick reference, incl. one random two-way partition each (BOUNDED, natively, not counted as proved)" % n)
            rep.cmds.append("cargo test --offline native_c17_bounded (RUSTFLAGS=--cfg koge29_verif, KOGE29_C17=1)")
        rep.assumptions.append("TCR clock selections 4-7 (external clock / cascade) are outside the statement and excluded by precondition")
        rep.assumptions.append("TCORA != TCORB and both non-zero whenever a counter-clear source is selected (simultaneous events are left open by the hardware manual)")
        rep.assumptions.append("equivalence for every partition of the elapsed time = per-call contract + partition lemma + tick^(a+b) = tick^b o tick^a (definition of iteration)")
        rep.bounds.append("loop unwinding bound 34 (complete: charge is a u8 and the divisor is at least 8, so at most 33 counts per call; unwinding assertions on)")
    if prop == "C14":
        n, fails = native.c14_bounded()
        if n is None:
            rep.inconclusive.append("native bounded C14 stand-in did not build/run: %s" % str(fails)[-300:])
        else:
            for c in native.C14_CLAUSES:
                o = rep.add(Obl("C14/bounded_write/" + c, "native execution of the write call on enumerated buffers (bounded)", unit="native_c14_bounded", fn="Cpu::trapa, trapa_emulate_mes2 (id 104), Cpu::send_stdout_message, Cpu::send_message (real)"))
                if c in fails:
                    o.status = FAILED
                    o.detail = fails[c]
                    o.witness = {"case": fails[c]}
                else:
                    o.status = DISCHARGED
            rep.bounds.append("C14/bounded_write/*: %d write calls (lengths 0..4096, ASCII / NUL / newline / backslash / 2-3-4-byte UTF-8 at every alignment around offsets 31..33, buffers in on-chip RAM and DRAM incl. the last bytes of each) through the real code with message capture (BOUNDED, natively, not counted as proved)" % n)
            rep.cmds.append("cargo test --offline native_c14_bounded (RUSTFLAGS=--cfg koge29_verif, KOGE29_C14=1)")
        rep.assumptions.append("the MES convention's GOT-save word at H'FFFD10+4*vector is accepted as part of set_handler's effect")
    return rep.finish(native.find_witness)


def check_c15(prop, tier):
    rep = new_report(prop, tier, "automatic panic/overflow/bounds/unwrap obligations generated by Kani inside /repo/src over every contract harness (full symbolic domains), Verus overflow obligations of the extracted units, plus err-on-unmapped clauses")
    run_kani_both(rep, prop)
    if True:
        # every dispatch target with every pair of words exec can hand to it (undefined encodings included; the
        # guards are generated from exec's text and self-checked by the dispatch harness): automatic checks only
        names = json.load(open(os.path.join(VERIF, "lib", "c07_targets.json"))).get("c15_any", [])
        log = os.path.join(kani_run.CACHE, "logs", "C15-any.log")
        r = kani_run.run_harnesses(["cpu::verif_hooks::kc15::" + n for n in names], harness_timeout=1800, log_path=log)
        rep.cmds.append("(cd kani/crate && " + r["cmd"] + ")")
        rep.logs.append(log)
        for n in names:
            h = r["harness"].get(n)
            if h is None or h["status"] not in ("SUCCESSFUL", "FAILED"):
                rep.inconclusive.append("harness %s: %s" % (n, h["status"] if h else "no result"))
                continue
            rep.auto_checks += h["total"]
            for fc in h["failed_checks"]:
                oid = custom_check.auto_id(n, fc)
                if not any(x["id"] == oid for x in rep.extra_failed):
                    rep.auto_failed += 1
                    rep.extra_failed.append({"id": oid, "detail": "CBMC: FAILURE of automatic check '%s' at %s:%d in %s (harness %s, fully symbolic encoding)" % (fc["desc"], fc["file"], fc["line"], fc["func"], n), "unit": n, "function": fc["func"]})
        rep.notes.append("%d harnesses call every dispatch target of Cpu::exec with all words the dispatcher can hand to it (undefined encodings included)" % len(names))
    for unit, fns in (("bus", "Bus::read, Bus::write, ioport helpers"), ("irq", "request_interrupt, try_interrupt"), ("run", "Cpu::run, ModuleManager::update_modules")):
        custom_check.run_verus_unit(rep, prop, unit, fns)
    rep.assumptions.append("overflow/shift checks are the overflow-checking build configuration; panic/bounds/unwrap/division checks hold for both configurations")
    rep.assumptions.append("control-channel lines are parsed inside the socket block of Cpu::run, which is outside this technique (C18 not applicable)")
    rep.assumptions.append("undefined encodings: every dispatch target is run with all words Cpu::exec can pass to it (guards derived from exec's text, self-checked in the C07 dispatch harness as SELF/dispatch/generated_guards_hold)")
    return rep.finish(native.find_witness)


def check_c02(prop, tier):
    rep = new_report(prop, tier, STEP_TECH + "; the DIVXU quotient/remainder clause over the full operand domain is discharged by Verus on the extracted divxu_b/divxu_w and register-lane helpers (unit div)")
    step_check.run_step(rep, prop)
    bus_seam(rep, prop)
    res = custom_check.run_verus_unit(rep, prop, "div", "Cpu::divxu_b, Cpu::divxu_w, Cpu::read_rn_b/w/l, Cpu::write_rn_w/l, Cpu::write_ccr, Cpu::get_nibble_opcode")
    if res.get("status") != "ok":
        # the unit is out of the verifier's reach after a source change: a bounded native comparison of the same
        # contract on the real code keeps a violation visible (a clean result discharges nothing; the check stays inconclusive)
        for f in ("DIVXU_B", "DIVXU_W_EXACT"):
            try:
                w = native.find_any(f, budget_ms=8000)
            except Exception:
                w = None
            if w:
                o = rep.add(Obl("C02/%s/%s" % (f.replace("_EXACT", ""), w.get("clause", "regs")), "native comparison with the contract (bounded) after the Verus unit lost its anchor", unit="native_search", fn="Cpu::divxu_b, Cpu::divxu_w"))
                o.status = FAILED
                o.witness = w
                o.detail = "verus unit div: %s; the clause fails natively on the real code: %s" % (res.get("status"), w.get("detail", "")[:300])
    rep.notes.append("DIVXU: flags, untouched registers, PC and cost are proved by the Kani *_STRUCT harnesses (full domain, destination lanes left open); the value of the destination (quotient low, remainder high, only Rd written) is proved by the Verus unit `div` for all operands; CBMC's own full-domain divider equivalence (DIVXU_B, ~8 min) runs in the thorough tier")
    return rep.finish(native.find_witness)


CHECKS = {
    "C01": check_step_only,
    "C02": check_c02,
    "C03": check_step_only,
    "C04": check_step_only,
    "C05": check_step_plus_custom,
    "C06": check_step_plus_custom,
    "C07": check_c07,
    "C08": check_step_plus_custom,
    "C09": check_c09,
    "C10": check_c10,
    "C13": check_c13,
    "C14": check_custom_only,
    "C15": check_c15,
    "C16": check_custom_only,
    "C17": check_custom_only,
    "C19": check_custom_only,
    "C20": check_step_only,
}


UNIT_SOURCES = {
    "bus": ["src/bus.rs", "src/ioport.rs", "src/memory.rs"],
    "irq": ["src/cpu/interrupt_controller.rs", "src/cpu.rs"],
    "run": ["src/cpu.rs", "src/bus.rs", "src/modules.rs"],
    "div": ["src/cpu/instruction/divxu.rs", "src/cpu/addressing_mode/rn.rs", "src/cpu/instruction.rs", "src/cpu.rs"],
}


def extract_diff(unit):
    """./check extract-diff <unit>: for every function of the unit, the repository's text against the text Verus sees"""
    import difflib, importlib
    sys.path.insert(0, os.path.join(VERIF, "verus"))
    import extract
    mod = importlib.import_module("unit_" + unit)
    text, names = mod.build()
    for name in names:
        src_txt = None
        for f in UNIT_SOURCES.get(unit, []):
            try:
                sig, body = extract.get_fn(extract.strip_tests(extract.read(f)), name)
                src_txt = sig + " " + body
                break
            except Exception:
                continue
        try:
            try:
                gsig, gbody = extract.get_fn(text, name)
            except Exception:
                gsig, gbody = extract.get_fn(text, name + "_link")  # R6b: generated under this name
            gen_txt = gsig + " " + gbody
        except Exception:
            gen_txt = ""
        print("=" * 20, unit, "::", name)
        if src_txt is None:
            print("(source not found)")
            continue
        norm = lambda t: [l.rstrip() for l in t.splitlines() if l.strip()]
        for l in difflib.unified_diff(norm(src_txt), norm(gen_txt), "repository", "generated (contract clauses appear as added lines)", lineterm="", n=1):
            print(l)
    return 0


def main():
    if len(sys.argv) < 2:
        print("usage: check <ID> quick|thorough | check replay <file>")
        return 2
    if sys.argv[1] == "replay":
        d = json.load(open(sys.argv[2]))
        print("obligation:", d.get("obligation"))
        print("verifier  :", d.get("verifier_output"))
        if d.get("failing_input"):
            print(native.replay(d["failing_input"]))
        else:
            print("no failing input recorded (no-failing-input-found); see the logs:", d.get("logs"))
        return 0
    if sys.argv[1] == "extract-diff":
        return extract_diff(sys.argv[2] if len(sys.argv) > 2 else "bus")
    prop = sys.argv[1]
    tier = sys.argv[2] if len(sys.argv) > 2 else os.environ.get("VERIF_TIER", "quick")
    if tier not in ("quick", "thorough"):
        tier = "quick"
    if prop == "all":
        rc = 0
        for p in sorted(CHECKS):
            rc = max(rc, CHECKS[p](p, tier))
        return rc
    if prop not in CHECKS:
        print("unknown property", prop)
        return 2
    return CHECKS[prop](prop, tier)


if __name__ == "__main__":
    sys.exit(main())
