#!/bin/bash
# usage: lib/seedtest.sh <patch.diff> <prop> [<prop>...]
# applies a seeded change to /repo, runs the quick checks of the named properties with evidence/replay
# redirected to a scratch directory, and ALWAYS restores /repo afterwards.
set -u
patch="$1"; shift
cd /verif
out=/tmp/seedtest.$$
mkdir -p $out/evidence $out/replay
git -C /repo apply "$patch" || { echo "patch does not apply"; exit 3; }
trap 'git -C /repo checkout -- . ; git -C /repo clean -fdq -e target' EXIT
for p in "$@"; do
  KOGE29_EVID_DIR=$out/evidence KOGE29_REPLAY_DIR=$out/replay ./check $p quick > $out/$p.log 2>&1
  rc=$?
  echo "== $p exit $rc"
  grep -E "^VIOLATION|^INCONCLUSIVE" $out/$p.log | head -8
  tail -1 $out/$p.log
done
