"""Builds a Verus unit from the live /repo sources and runs verus on it; maps results to obligations."""
import importlib, json, os, re, subprocess, sys, time

VERIF = os.path.dirname(os.path.dirname(os.path.abspath(__file__)))
sys.path.insert(0, os.path.join(VERIF, "verus"))
CACHE = os.environ.get("KOGE29_CACHE", os.path.join(VERIF, ".cache"))


def run_verus(path, timeout=600):
    t0 = time.time()
    p = subprocess.run(["verus", path, "--triggers-mode", "silent", "--output-json", "--time"], stdout=subprocess.PIPE, stderr=subprocess.PIPE,
                       text=True, timeout=timeout)
    wall = time.time() - t0
    js = None
    try:
        js = json.loads(p.stdout)
    except Exception:
        pass
    return p.returncode, js, p.stderr, wall


def parse_errors(stderr, path):
    """[(message, primary_line, [secondary lines])]"""
    errs = []
    blocks = re.split(r"(?m)^(?=error)", stderr)
    for b in blocks:
        m = re.match(r"error(?:\[[^\]]*\])?: (.*)", b)
        if not m:
            continue
        msg = m.group(1).strip()
        if msg.startswith("aborting due to"):
            continue
        pm = re.search(r"-->\s*%s:(\d+):(\d+)" % re.escape(path), b)
        line = int(pm.group(1)) if pm else 0
        # the failed clause spans from the primary line to the numbered line right above the `failed this ...` marker
        sec = []
        blines = b.splitlines()
        last_num = 0
        for bl in blines:
            mnum = re.match(r"^\s*(\d+)\s*\|", bl)
            if mnum:
                last_num = int(mnum.group(1))
            elif re.search(r"\^+.*failed this|\^+\s*$|_+\^", bl) and last_num >= line and line:
                sec = list(range(line, last_num + 1))
                break
        errs.append((msg, line, sec, b[:1500]))
    return errs


def unit(name, **kw):
    """-> dict(status, path, obls: {id: (status, detail)}, fn_ok: {fn: bool}, errors, wall, cmd, verified, n_errors)"""
    mod = importlib.import_module("unit_" + name)
    os.makedirs(os.path.join(CACHE, "verus"), exist_ok=True)
    path = os.path.join(CACHE, "verus", "%s_unit.rs" % name)
    res = {"unit": name, "path": path, "status": "ok", "obls": {}, "errors": [], "auto_ok": 0, "auto_failed": []}
    try:
        text, names = mod.build(**kw)
    except Exception as e:  # LostAnchor and friends
        res["status"] = "lost-anchor: %s" % e
        return res
    open(path, "w").write(text)
    rc, js, stderr, wall = run_verus(path)
    res["wall"] = wall
    res["cmd"] = "verus %s --triggers-mode silent --output-json --time" % path
    res["stderr"] = stderr[-6000:]
    lines = text.splitlines()
    obl_line = {}
    for i, ln in enumerate(lines, 1):
        m = re.search(r"//\s*OBL:(\S+)", ln)
        if m:
            obl_line[i] = m.group(1)
    if js is None:
        res["status"] = "tool-error: no JSON from verus (syntax/type error after extraction?)"
        res["errors"] = parse_errors(stderr, path)
        return res
    vr = js.get("verification-results", {})
    res["verified"] = vr.get("verified", 0)
    res["n_errors"] = vr.get("errors", 0)
    errs = parse_errors(stderr, path)
    res["errors"] = errs
    if re.search(r"(?m)^error\[E\d+\]", stderr):
        # a rustc name-resolution / type error in the generated unit: the extraction no longer fits the source
        # (lost anchor / unsupported construct) - inconclusive, never a violation
        res["status"] = "tool-error: the extracted unit does not compile (%s)" % re.search(r"(?m)^error\[E\d+\]: (.*)$", stderr).group(1)[:120]
        return res
    if vr.get("encountered-vir-error") or (vr.get("encountered-error") and not errs and vr.get("errors", 0) == 0):
        res["status"] = "tool-error: verus rejected the unit (unsupported construct)"
        return res
    smt = 0.0
    try:
        smt = js["times-ms"]["smt"]["smt-run"] / 1000.0
    except Exception:
        pass
    res["smt_s"] = smt
    failed_lines = {}
    for msg, line, sec, blk in errs:
        hit = False
        for l in [line] + sec:
            if l in obl_line:
                failed_lines[l] = (msg, blk)
                hit = True
        if not hit:
            res["auto_failed"].append({"msg": msg, "line": line, "text": lines[line - 1].strip() if 0 < line <= len(lines) else "", "block": blk})
    for l, oid in obl_line.items():
        if l in failed_lines:
            res["obls"][oid] = ("failed", "verus: %s at generated line %d: %s\n%s" % (failed_lines[l][0], l, lines[l - 1].strip(), failed_lines[l][1]))
        else:
            res["obls"][oid] = ("discharged", "")
    # implicit obligations (overflow, bounds, call preconditions, termination): one per verified function
    res["auto_ok"] = res["verified"]
    if "timed out" in stderr or "rlimit" in stderr.lower() and "exceeded" in stderr.lower():
        res["status"] = "solver-limit"
    return res


def canary(name):
    """the same unit plus `ensures false` lemma: must FAIL, otherwise the unit is inconsistent"""
    mod = importlib.import_module("unit_" + name)
    path = os.path.join(CACHE, "verus", "%s_canary.rs" % name)
    text, _ = mod.build(canary=True)
    open(path, "w").write(text)
    rc, js, stderr, wall = run_verus(path)
    ok = js is not None and js.get("verification-results", {}).get("errors", 0) >= 1 and "canary_" in stderr
    return ok


def falsify_each(name):
    """thorough vacuity guard: with `false` added to one function's ensures the unit must FAIL
    (precondition satisfiable, body reachable); returns the list of functions for which it did not"""
    mod = importlib.import_module("unit_" + name)
    _, names = mod.build()
    bad = []
    for fn in names:
        path = os.path.join(CACHE, "verus", "%s_falsify_%s.rs" % (name, fn))
        text, _ = mod.build(falsify=fn)
        open(path, "w").write(text)
        rc, js, stderr, wall = run_verus(path)
        if js is None or js.get("verification-results", {}).get("errors", 0) < 1:
            bad.append(fn)
    return names, bad


if __name__ == "__main__" and len(sys.argv) > 2 and sys.argv[2] == "falsify":
    print(falsify_each(sys.argv[1]))
    sys.exit(0)

if __name__ == "__main__":
    r = unit(sys.argv[1])
    print(r["status"], r.get("verified"), r.get("n_errors"))
    for k, v in r["obls"].items():
        print(" ", k, v[0])
    for a in r["auto_failed"]:
        print("  AUTO-FAIL", a["msg"], a["line"], a["text"])
    print("canary fails as required:", canary(sys.argv[1]))
