"""Obligation bookkeeping, known findings, evidence and exit codes shared by all checks."""
import json, os, re, sys, time

VERIF = os.path.dirname(os.path.dirname(os.path.abspath(__file__)))
REPO = os.environ.get("KOGE29_REPO", "/repo")
EVID = os.environ.get("KOGE29_EVID_DIR", os.path.join(VERIF, "evidence"))
REPLAY = os.environ.get("KOGE29_REPLAY_DIR", os.path.join(VERIF, "replay"))
KNOWN = os.path.join(VERIF, "known_findings.jsonl")

DISCHARGED = "discharged"
FAILED = "failed"
UNDETERMINED = "undetermined"


def load_known():
    out = []
    if os.path.exists(KNOWN):
        for ln in open(KNOWN):
            ln = ln.strip()
            if ln and not ln.startswith("#"):
                out.append(json.loads(ln))
    return out


class Obl:
    def __init__(self, oid, backend, unit="", fn=""):
        self.id = oid
        self.backend = backend
        self.unit = unit  # harness / verus unit deciding it
        self.fn = fn  # real function(s) under contract
        self.status = UNDETERMINED
        self.detail = ""
        self.seconds = 0.0
        self.witness = None

    def rec(self):
        return {"id": self.id, "backend": self.backend, "unit": self.unit, "function": self.fn, "status": self.status,
                "detail": self.detail[:600], "unit_solver_s": round(self.seconds, 2)}


class Report:
    """collects everything one check run decided"""

    def __init__(self, prop, tier, level, technique):
        self.prop = prop
        self.tier = tier
        self.level = level
        self.technique = technique
        self.obls = {}
        self.extra_failed = []  # failures that are not pre-registered obligations (e.g. automatic panic checks)
        self.inconclusive = []  # reasons
        self.assumptions = []
        self.trusted = []
        self.functions = []
        self.cmds = []
        self.vacuity = []
        self.notes = []
        self.bounds = []
        self.t0 = time.time()
        self.auto_checks = 0  # automatic verifier checks counted (C15)
        self.auto_failed = 0
        self.logs = []

    def add(self, o):
        self.obls[o.id] = o
        return o

    def locate_functions(self):
        """names of the real functions under contract -> `name (file:line)` in /repo at the time of the run"""
        import glob
        index = {}
        for f in glob.glob(os.path.join(REPO, "src/**/*.rs"), recursive=True):
            try:
                for n, ln in enumerate(open(f), 1):
                    m = re.match(r"\s*(?:pub(?:\([^)]*\))?\s+)?fn\s+(\w+)\s*[(<]", ln)
                    if m and not m.group(1).startswith("test_"):
                        index.setdefault(m.group(1), "%s:%d" % (os.path.relpath(f, REPO), n))
            except Exception:
                pass
        out = []
        for item in self.functions:
            names = re.findall(r"(?:cpu\.|::|\b)([a-z_][a-z0-9_]*)\s*(?=\(|,|;|$|\s)", item)
            locs = []
            for nm in names:
                if nm in index and index[nm] not in locs:
                    locs.append("%s@%s" % (nm, index[nm]))
            out.append(item + ("  [" + ", ".join(locs[:6]) + "]" if locs else ""))
        return out

    def finish(self, witness_finder=None):
        known = [k for k in load_known() if k.get("property") == self.prop and k.get("status") == "known"]
        known_ids = {k["obligation"]: k for k in known}
        failed = [o for o in self.obls.values() if o.status == FAILED]
        undet = [o for o in self.obls.values() if o.status == UNDETERMINED]
        violations = []
        known_hit = []
        for o in failed:
            if o.id in known_ids:
                known_hit.append((o, known_ids[o.id]))
            else:
                if o.witness is None and witness_finder is not None and sum(1 for v in violations if v.get('witness')) < 3 and len(violations) < 6:
                    try:
                        o.witness = witness_finder(o)
                    except Exception as e:  # the search is a convenience; never let it change the verdict
                        o.detail += " [witness search failed: %s]" % e
                violations.append({"id": o.id, "detail": o.detail, "unit": o.unit, "function": o.fn, "witness": o.witness})
        for x in self.extra_failed:
            if x["id"] in known_ids:
                known_hit.append((None, known_ids[x["id"]]))
            else:
                violations.append(x)
        n_obl = len(self.obls) + self.auto_checks
        n_dis = sum(1 for o in self.obls.values() if o.status == DISCHARGED) + (self.auto_checks - self.auto_failed)
        wall = time.time() - self.t0
        os.makedirs(EVID, exist_ok=True)
        samples = [o.rec() for o in list(self.obls.values())[:6]]
        samples += [o.rec() for o in failed[:6]]
        explanation = (
            "%s. %d obligations generated from the current /repo sources, %d discharged, %d failed (%d of them listed as known findings), %d undetermined."
            % (self.technique, n_obl, n_dis, len(failed) + len(self.extra_failed), len(known_hit), len(undet))
        )
        if known_hit:
            explanation += " proof-with-known-findings: the listed known findings are genuine defects of the repository, see known_findings.jsonl."
        if self.bounds:
            explanation += " BOUNDED parts: " + "; ".join(self.bounds)
        ev = {
            "property_id": self.prop,
            "tier": self.tier,
            "seed": int(os.environ.get("VERIF_SEED", "0") or 0),
            "level": self.level,
            "coverage": {
                "obligations": n_obl,
                "discharged": n_dis,
                "failed": len(failed) + len(self.extra_failed),
                "undetermined": len(undet),
                "checker_cmd": " ; ".join(self.cmds) if self.cmds else "n/a",
                "trusted_base": self.trusted,
                "functions_under_contract": self.locate_functions(),
                "samples": samples,
                "explanation": explanation,
                "known_findings": [k for (_, k) in known_hit],
                "vacuity": self.vacuity,
                "bounds": self.bounds,
                "obligation_list": [o.rec() for o in self.obls.values()],
                "other_failed_checks": self.extra_failed,
                "logs": self.logs,
                "notes": self.notes,
            },
            "assumptions": self.assumptions,
            "wall_s": round(wall, 1),
            "violations": len(violations),
        }
        json.dump(ev, open(os.path.join(EVID, self.prop + ".json"), "w"), indent=1)
        for (_, k) in known_hit:
            print("KNOWN-FINDING: property=%s %s -- %s" % (self.prop, k["obligation"], k.get("what", "")))
        rc = 0
        if violations:
            os.makedirs(REPLAY, exist_ok=True)
            for n, v in enumerate(violations):
                path = os.path.join(REPLAY, "%s-%d.json" % (self.prop, n))
                witness = v.get("witness")
                json.dump({"property": self.prop, "obligation": v["id"], "verifier_output": v.get("detail", ""), "unit": v.get("unit", ""),
                           "function": v.get("function", ""), "failing_input": witness, "logs": self.logs}, open(path, "w"), indent=1)
                tail = "" if witness else " no-failing-input-found"
                print("VIOLATION property=%s replay=%s obligation=%s%s" % (self.prop, path, v["id"], tail))
            rc = 1
        elif self.inconclusive or undet:
            for r in self.inconclusive:
                print("INCONCLUSIVE property=%s %s" % (self.prop, r))
            for o in undet[:20]:
                print("INCONCLUSIVE property=%s lost-or-undetermined-obligation=%s %s" % (self.prop, o.id, o.detail[:200]))
            rc = 2
        print("%s %s: obligations=%d discharged=%d failed=%d known=%d undetermined=%d wall=%.0fs -> exit %d"
              % (self.prop, self.tier, n_obl, n_dis, len(failed) + len(self.extra_failed), len(known_hit), len(undet), wall, rc))
        return rc
