"""Checks decided by the per-form instruction contracts (kani/step.rs + spec/isa.rs)."""
import json, os, re, sys
from core import Report, Obl, DISCHARGED, FAILED, UNDETERMINED, VERIF
import kani_run

KSTEP = "cpu::verif_hooks::kstep::"
HOME_CLAUSES = ["ok", "regs", "flags", "pc", "mem_value", "mem_frame", "no_message"]

STEP_TRUSTED = [
    "spec/isa.rs reference semantics (transcribed from the H8/300H programming manual, DESIGN.md Appendix B)",
    "kani/shims/anyhow: payload-free model of the anyhow crate (Ok/Err preserved, message dropped)",
    "bus seam stub for Bus::read/Bus::write (contract of C09; real bodies verified in the C09/C16 units)",
    "cost seam stub for Cpu::calc_state_with_addr (contract of C19; real body verified in the C19 unit)",
    "message seam stubs Cpu::send_message / Bus::send_message (mpsc/stdout never executed under the verifier)",
    "the dispatcher's fetches are emulated by the harness (pc/operating_pc set as Cpu::fetch does); dispatch itself is C07's unit",
    "Kani 0.68 / CBMC 6.11 / CaDiCaL, rustc (Kani toolchain), debug_assertions on, ENABLE_PRINT_OPCODE forced false",
]
STEP_ASSUMPTIONS = [
    "kani::assume(exp.pre): inputs outside the property's quantifier are excluded (e.g. DIVXU divisor 0 / quotient overflow, +/- forms with overlapping data and address register, odd branch targets)",
    "default code placement PC=0xffc100 for non-control-flow forms; control-flow forms use a symbolic even PC in on-chip RAM or DRAM",
    "termination not verified",
]


def registry():
    return json.load(open(os.path.join(VERIF, "lib", "forms.json")))


def relevant_forms(prop, reg, tier="quick"):
    forms = {f: v for f, v in reg["forms"].items() if tier == "thorough" or v.get("tier", "quick") == "quick"}
    if prop in ("C07", "C08", "C20", "C15"):
        return sorted(forms)
    if prop == "C06":
        # the entry/return contracts assume the state invariant `PC < 2^24` (the frame is (CCR << 24) | PC); the
        # invariant is established by the `pc` postcondition of every form that loads PC from data, so those
        # postconditions are obligations of C06 as well
        return sorted(f for f, v in forms.items() if v["prop"] in ("C06", "C05"))
    return sorted(f for f, v in forms.items() if v["prop"] == prop)


def expected_ids(prop, form, home):
    ids = []
    if prop == home:
        ids += ["%s/%s/%s" % (prop, form, c) for c in HOME_CLAUSES]
    if prop == "C06" and home == "C05":
        ids.append("C05/%s/pc" % form)
    if prop == "C07":
        ids.append("C07/%s/executed_as_encoded_with_its_length" % form)
    if prop == "C08":
        ids.append("C08/%s/ea" % form)
        ids.append("C08/%s/address_registers" % form)
    if prop == "C20":
        ids += ["C20/%s/cycle_mix" % form, "C20/%s/charge_is_sum" % form]
    if prop == "C15":
        ids.append("C15/%s/err_on_unmapped" % form)
    return ids


def harness_names(prop, tier):
    kani_run.prepare()
    reg = registry()
    forms = relevant_forms(prop, reg, tier)
    return [KSTEP + g for g in sorted({reg["forms"][f]["group"] for f in forms})]


def run_step(rep, prop, forms=None, harness_timeout=900, skip_groups=(), r=None):
    """runs the groups that contain the relevant forms and fills rep with their obligations"""
    kani_run.prepare()
    reg = registry()
    forms = forms if forms is not None else relevant_forms(prop, reg, rep.tier)
    groups = sorted({reg["forms"][f]["group"] for f in forms} - set(skip_groups))
    log = os.path.join(kani_run.CACHE, "logs", "%s-step.log" % prop)
    if r is None:
        r = kani_run.run_harnesses([KSTEP + g for g in groups], harness_timeout=harness_timeout, log_path=log)
        rep.cmds.append("(cd kani/crate && " + r["cmd"] + ")")
        rep.logs.append(log)
    if r["compile_error"]:
        rep.inconclusive.append("kani-compile-error (unsupported construct or lost anchor after a source edit); see " + log)
    fail_by_id = {}
    other = []
    for g in groups:
        h = r["harness"].get(g)
        if h is None:
            continue
        for fc in h["failed_checks"]:
            d = fc["desc"]
            if d.startswith("OBL:"):
                fail_by_id[d[4:]] = fc
            else:
                other.append((g, fc))
    for f in forms:
        info = reg["forms"][f]
        g = info["group"]
        h = r["harness"].get(g)
        for oid in expected_ids(prop, f, info["prop"]):
            o = rep.add(Obl(oid, "kani/cbmc+cadical", unit=g, fn=info["call"]))
            if g in skip_groups:
                o.detail = "group not run in this tier"
                continue
            if h is None or h["status"] not in ("SUCCESSFUL", "FAILED") or h["total"] == 0:
                o.detail = "harness %s did not complete: %s" % (g, h["status"] if h else "no result")
                continue
            o.seconds = h["time"]
            if oid in fail_by_id:
                fc = fail_by_id[oid]
                o.status = FAILED
                o.detail = "CBMC: FAILURE of check '%s' at %s:%d in %s (harness %s)" % (fc["desc"], fc["file"], fc["line"], fc["func"], g)
            else:
                o.status = DISCHARGED
    # thorough tier: second pass with a symbolic code address for EVERY form (the quick tier places non-control-flow
    # forms at PC_DEFAULT); a clause failing in either pass is failed
    if rep.tier == "thorough" and not os.environ.get("KOGE29_ALL_SYM_PC") and not skip_groups:
        os.environ["KOGE29_ALL_SYM_PC"] = "1"
        try:
            log2 = os.path.join(kani_run.CACHE, "logs", "%s-step-sympc.log" % prop)
            r2 = kani_run.run_harnesses([KSTEP + g for g in groups], harness_timeout=1800, log_path=log2)
        finally:
            del os.environ["KOGE29_ALL_SYM_PC"]
            kani_run.prepare()
        rep.cmds.append("KOGE29_ALL_SYM_PC=1 (cd kani/crate && " + r2["cmd"] + ")")
        rep.logs.append(log2)
        for g in groups:
            h2 = r2["harness"].get(g)
            if h2 is None or h2["status"] not in ("SUCCESSFUL", "FAILED"):
                rep.notes.append("symbolic-placement pass: harness %s did not complete (%s); its quick-placement result stands" % (g, h2["status"] if h2 else "no result"))
                continue
            for fc in h2["failed_checks"]:
                d = fc["desc"]
                if d.startswith("OBL:") and d[4:] in rep.obls and rep.obls[d[4:]].status != FAILED:
                    o = rep.obls[d[4:]]
                    o.status = FAILED
                    o.detail = "fails with a symbolic code address (second pass): CBMC FAILURE of '%s' at %s:%d (harness %s)" % (d, fc["file"], fc["line"], g)
        rep.notes.append("thorough: every form verified a second time with a symbolic even code address in on-chip RAM or DRAM")
    # the verifier ran into its limit on some group (typically after a source change): a bounded native comparison
    # of the same contract on the real code keeps a violation visible (labelled bounded; a clean result here
    # does NOT discharge anything - the obligations stay undetermined and the check stays inconclusive)
    import native
    timed_out = [g for g in groups if (r["harness"].get(g) is None or r["harness"][g]["status"] not in ("SUCCESSFUL", "FAILED"))]
    for g in timed_out[:6]:
        for f in reg["groups"].get(g, []):
            if f not in forms:
                continue
            try:
                w = native.find_any(f)
            except Exception as e:
                w = None
            if not w:
                continue
            clause = w.get("clause", "")
            home = reg["forms"][f]["prop"]
            cands = {"ea": "C08/%s/ea" % f, "cycle_mix": "C20/%s/cycle_mix" % f, "err_on_unmapped": "C15/%s/err_on_unmapped" % f}
            oid = cands.get(clause, "%s/%s/%s" % (home, f, clause))
            if clause == "regs" and prop == "C08":
                oid = "C08/%s/address_registers" % f
            if oid in rep.obls:
                o = rep.obls[oid]
                o.status = FAILED
                o.backend = "native comparison with the contract (bounded) after verifier limit"
                o.witness = w
                o.detail = "harness %s hit the verifier limit; the same clause fails natively on the real code: %s" % (g, w.get("detail", "")[:300])
    # harness self checks + vacuity
    for g in groups:
        h = r["harness"].get(g)
        if h is None:
            rep.inconclusive.append("no result for harness " + g)
            continue
        if h["status"] not in ("SUCCESSFUL", "FAILED"):
            rep.inconclusive.append("harness %s: %s (timeout / tool error)" % (g, h["status"]))
            continue
        rep.vacuity.append({"harness": g, "covers_satisfied": h["covers_sat"], "covers_total": h["covers_total"], "checks": h["total"]})
        if h["covers_total"] == 0 or h["covers_sat"] != h["covers_total"]:
            rep.inconclusive.append("vacuity guard: harness %s satisfied %d of %d cover points" % (g, h["covers_sat"], h["covers_total"]))
    for oid, fc in fail_by_id.items():
        if oid.startswith("SELF/"):
            rep.inconclusive.append("harness self-check failed: %s (harness/oracle encoding table out of sync)" % oid)
    # automatic checks (panic / overflow / bounds / unwrap) are the obligations of C15
    if prop == "C15":
        for g in groups:
            h = r["harness"].get(g)
            if h and h["status"] in ("SUCCESSFUL", "FAILED"):
                named = sum(1 for f in reg["groups"][g] for _ in range(12))  # named asserts per form in post_step (upper bound)
                rep.auto_checks += max(0, h["total"] - named)
        seen = set()
        for g, fc in other:
            import custom_check
            oid = custom_check.auto_id(g, fc)
            if oid in seen:
                continue
            seen.add(oid)
            rep.auto_failed += 1
            rep.extra_failed.append({"id": oid, "detail": "CBMC: FAILURE of automatic check '%s' at %s:%d in %s (harness %s)" % (fc["desc"], fc["file"], fc["line"], fc["func"], g), "unit": g, "function": fc["func"]})
    else:
        for g, fc in other:
            rep.notes.append("automatic check failed (belongs to C15): %s at %s:%d" % (fc["desc"], fc["file"], fc["line"]))
    rep.functions += sorted({reg["forms"][f]["call"] for f in forms})
    for f in forms:
        b = reg["forms"][f].get("bounded")
        if b and b not in rep.bounds and prop == reg["forms"][f]["prop"]:
            rep.bounds.append(b)
        if reg["forms"][f].get("relax") and prop == reg["forms"][f]["prop"]:
            n = "%s: quotient/remainder lanes left open by the oracle (flags, other registers, PC, cost exact over the full domain)" % f
            if n not in rep.notes:
                rep.notes.append(n)
    for t in STEP_TRUSTED:
        if t not in rep.trusted:
            rep.trusted.append(t)
    for a in STEP_ASSUMPTIONS:
        if a not in rep.assumptions:
            rep.assumptions.append(a)
    return r
