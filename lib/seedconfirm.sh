#!/bin/bash
# usage: lib/seedconfirm.sh <dir with patch.diff demo.diff>   -- independent confirmation in a scratch worktree
set -u
d="$1"
wt=/tmp/wt_confirm_$$
git -C /repo worktree add -q $wt HEAD || exit 3
export CARGO_TARGET_DIR=/tmp/wt_confirm_target
res=""
run() { (cd $wt && cargo test --offline 2>&1 | grep -E "^test result|FAILED" | tr '\n' ' '); }
git -C $wt apply "$d/patch.diff" && a=$(run); git -C $wt checkout -q -- . ; git -C $wt clean -fdq
git -C $wt apply "$d/demo.diff" && b=$(run); git -C $wt checkout -q -- . ; git -C $wt clean -fdq
git -C $wt apply "$d/patch.diff" && git -C $wt apply "$d/demo.diff" && c=$(run)
echo "patch only : $a"
echo "demo only  : $b"
echo "patch+demo : $c"
git -C /repo worktree remove --force $wt
