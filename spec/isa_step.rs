// ---------------------------------------------------------------- step()

/// Exception entry (TRAPA #n with vector 8+n, or interrupt acceptance with `vector`).
/// `ret_pc` = address of the next instruction of the interrupted stream.
pub fn exception_entry<M: Mem>(e: &mut Exp, m: &mut M, vector: u32, ret_pc: u32) {
    let sp = rl(&e.st.er, 7);
    let frame = sp.wrapping_sub(4) & ADDR_MASK;
    stack_pre(e, frame);
    let ccr = e.st.ccr;
    e.wr32(frame, ((ccr as u32) << 24) | (ret_pc & ADDR_MASK));
    wl(&mut e.st.er, 7, sp.wrapping_sub(4));
    let va = 4 * vector;
    let target = e.rd32(m, va);
    e.st.pc = target & ADDR_MASK;
    e.st.ccr |= CCR_I;
    e.free_ccr = CCR_UI;
}

/// C05/C06 quantify over stack pointers in on-chip RAM and DRAM: a frame byte that is accessible but
/// lies in the vector area or in the I/O register ranges is outside the quantifier
fn stack_pre(e: &mut Exp, frame: u32) {
    let mut i = 0u32;
    while i < 4 {
        let a = frame.wrapping_add(i);
        let ram = (a >= 0xffbf20 && a <= 0xffff1f) || (a >= 0x400000 && a <= 0x5fffff);
        if mapped(a) && !ram {
            e.pre = false;
        }
        i += 1;
    }
}

fn push_ret(e: &mut Exp, ret_pc: u32) -> u32 {
    let sp = rl(&e.st.er, 7);
    let frame = sp.wrapping_sub(4) & ADDR_MASK;
    stack_pre(e, frame);
    e.wr32_low24(frame, ret_pc & ADDR_MASK);
    wl(&mut e.st.er, 7, sp.wrapping_sub(4));
    frame
}

pub fn step<M: Mem>(st: &St, wd: &Words, m: &mut M) -> Exp {
    let mut e = Exp::new(st);
    let b0 = wd.b0;
    let b1 = wd.b1;
    let w = wd.w;
    let pc = st.pc;
    let rs4 = n_hi(b1);
    let rd4 = n_lo(b1);
    if wd.hn != 0xff {
        // the caller states (concretely) which high nibble the first byte has; used for the
        // one-byte-opcode forms (2r 3r 4c 8r..Fr) so that a symbolic register nibble does not
        // force a symbolic walk through the whole table
        if (b0 >> 4) != wd.hn {
            return e;
        }
        step_hn(&mut e, wd.hn, n_lo(b0), b1, m);
        return e;
    }
    match b0 {
        0x00 => {
            if b1 == 0 {
                e.unimpl(F_U_NOP)
            }
        }
        0x01 => match b1 {
            0x00 => step_mov_l(&mut e, &w, m),
            0x40 => step_stc_w(&mut e, &w),
            0x80 => e.unimpl(F_U_SLEEP),
            0xc0 => {
                // MULXS.B 01C0 50sr / MULXS.W 01C0 52s(0e)
                if hi(w[0]) == 0x50 || (hi(w[0]) == 0x52 && lo(w[0]) & 8 == 0) {
                    e.unimpl(F_U_MULXS)
                }
            }
            0xd0 => {
                if hi(w[0]) == 0x51 || (hi(w[0]) == 0x53 && lo(w[0]) & 8 == 0) {
                    e.unimpl(F_U_DIVXS)
                }
            }
            0xf0 => {
                // AND/OR/XOR.L ERs,ERd : 01F0 6x (0s)(0d)
                let x = hi(w[0]);
                let y = lo(w[0]);
                if y & 0x88 == 0 && (x == 0x64 || x == 0x65 || x == 0x66) {
                    let src = rl(&e.st.er, n_hi(y)) as u64;
                    let (op, f) = match x {
                        0x64 => (4, F_OR_L_RR),
                        0x65 => (5, F_XOR_L_RR),
                        _ => (3, F_AND_L_RR),
                    };
                    do_alu(&mut e, SZ_L, op, n_lo(y), src, f, 2);
                }
            }
            _ => {}
        },
        0x02 => {
            if rs4 == 0 {
                e.exec(F_STC_B, 2);
                let c = e.st.ccr;
                wb(&mut e.st.er, rd4, c);
                e.cyc(K_I, 1, 0);
            }
        }
        0x03 => {
            if rs4 == 0 {
                e.unimpl(F_U_LDC_B_R)
            }
        }
        0x04 => e.unimpl(F_U_ORC),
        0x05 => e.unimpl(F_U_XORC),
        0x06 => e.unimpl(F_U_ANDC),
        0x07 => e.unimpl(F_U_LDC_B_IMM),
        0x08 => {
            let s = rb(&e.st.er, rs4) as u64;
            do_alu(&mut e, SZ_B, 0, rd4, s, F_ADD_B_RR, 1)
        }
        0x09 => {
            let s = rw(&e.st.er, rs4) as u64;
            do_alu(&mut e, SZ_W, 0, rd4, s, F_ADD_W_RR, 1)
        }
        0x0a => {
            if rs4 == 0 {
                do_unary(&mut e, SZ_B, 3, rd4, F_INC_B)
            } else if rs4 >= 8 && rd4 < 8 {
                let s = rl(&e.st.er, rs4) as u64;
                do_alu(&mut e, SZ_L, 0, rd4, s, F_ADD_L_RR, 1)
            }
        }
        0x0b => match rs4 {
            0x0 | 0x8 | 0x9 => {
                if rd4 < 8 {
                    let (k, f) = match rs4 {
                        0 => (1u32, F_ADDS_1),
                        8 => (2, F_ADDS_2),
                        _ => (4, F_ADDS_4),
                    };
                    let v = rl(&e.st.er, rd4).wrapping_add(k);
                    e.exec(f, 2);
                    wl(&mut e.st.er, rd4, v);
                    e.cyc(K_I, 1, 0);
                }
            }
            0x5 => do_unary(&mut e, SZ_W, 3, rd4, F_INC_W_1),
            0xd => do_unary(&mut e, SZ_W, 4, rd4, F_INC_W_2),
            0x7 => {
                if rd4 < 8 {
                    do_unary(&mut e, SZ_L, 3, rd4, F_INC_L_1)
                }
            }
            0xf => {
                if rd4 < 8 {
                    do_unary(&mut e, SZ_L, 4, rd4, F_INC_L_2)
                }
            }
            _ => {}
        },
        0x0c => do_mov_reg(&mut e, SZ_B, rs4, rd4, F_MOV_B_RR),
        0x0d => do_mov_reg(&mut e, SZ_W, rs4, rd4, F_MOV_W_RR),
        0x0e => step_addx(&mut e, rd4, rb(&st.er, rs4), F_ADDX_RR),
        0x0f => {
            if rs4 == 0 {
                e.unimpl(F_U_DAA)
            } else if rs4 >= 8 && rd4 < 8 {
                do_mov_reg(&mut e, SZ_L, rs4, rd4, F_MOV_L_RR)
            }
        }
        0x10 | 0x11 | 0x12 | 0x13 => {
            // 10: SHLL/SHAL 11: SHLR/SHAR 12: ROTXL/ROTL 13: ROTXR/ROTR ; nibble: 0/1/3 = B/W/L, +8 second op
            let second = rs4 & 8 != 0;
            let szn = rs4 & 7;
            let op = (b0 - 0x10) * 2 + if second { 1 } else { 0 };
            let base = match op {
                0 => F_SHLL_B,
                1 => F_SHAL_B,
                2 => F_SHLR_B,
                3 => F_SHAR_B,
                4 => F_ROTXL_B,
                5 => F_ROTL_B,
                6 => F_ROTXR_B,
                _ => F_ROTR_B,
            };
            if szn == 0 {
                do_shift(&mut e, SZ_B, op, rd4, base)
            } else if szn == 1 {
                do_shift(&mut e, SZ_W, op, rd4, base + 1)
            } else if szn == 3 && rd4 < 8 {
                do_shift(&mut e, SZ_L, op, rd4, base + 2)
            }
        }
        0x14 => {
            let s = rb(&e.st.er, rs4) as u64;
            do_alu(&mut e, SZ_B, 4, rd4, s, F_OR_B_RR, 1)
        }
        0x15 => {
            let s = rb(&e.st.er, rs4) as u64;
            do_alu(&mut e, SZ_B, 5, rd4, s, F_XOR_B_RR, 1)
        }
        0x16 => {
            let s = rb(&e.st.er, rs4) as u64;
            do_alu(&mut e, SZ_B, 3, rd4, s, F_AND_B_RR, 1)
        }
        0x17 => match rs4 {
            0x0 => do_unary(&mut e, SZ_B, 0, rd4, F_NOT_B),
            0x1 => do_unary(&mut e, SZ_W, 0, rd4, F_NOT_W),
            0x3 => {
                if rd4 < 8 {
                    do_unary(&mut e, SZ_L, 0, rd4, F_NOT_L)
                }
            }
            0x5 => do_unary(&mut e, SZ_W, 2, rd4, F_EXTU_W),
            0x7 => {
                if rd4 < 8 {
                    do_unary(&mut e, SZ_L, 2, rd4, F_EXTU_L)
                }
            }
            0x8 => do_unary(&mut e, SZ_B, 1, rd4, F_NEG_B),
            0x9 => do_unary(&mut e, SZ_W, 1, rd4, F_NEG_W),
            0xb => {
                if rd4 < 8 {
                    do_unary(&mut e, SZ_L, 1, rd4, F_NEG_L)
                }
            }
            0xd => e.unimpl(F_U_EXTS_W),
            0xf => {
                if rd4 < 8 {
                    e.unimpl(F_U_EXTS_L)
                }
            }
            _ => {}
        },
        0x18 => {
            let s = rb(&e.st.er, rs4) as u64;
            do_alu(&mut e, SZ_B, 1, rd4, s, F_SUB_B_RR, 1)
        }
        0x19 => {
            let s = rw(&e.st.er, rs4) as u64;
            do_alu(&mut e, SZ_W, 1, rd4, s, F_SUB_W_RR, 1)
        }
        0x1a => {
            if rs4 == 0 {
                do_unary(&mut e, SZ_B, 5, rd4, F_DEC_B)
            } else if rs4 >= 8 && rd4 < 8 {
                let s = rl(&e.st.er, rs4) as u64;
                do_alu(&mut e, SZ_L, 1, rd4, s, F_SUB_L_RR, 1)
            }
        }
        0x1b => match rs4 {
            0x0 | 0x8 | 0x9 => {
                if rd4 < 8 {
                    let (k, f) = match rs4 {
                        0 => (1u32, F_SUBS_1),
                        8 => (2, F_SUBS_2),
                        _ => (4, F_SUBS_4),
                    };
                    let v = rl(&e.st.er, rd4).wrapping_sub(k);
                    e.exec(f, 2);
                    wl(&mut e.st.er, rd4, v);
                    e.cyc(K_I, 1, 0);
                }
            }
            0x5 => do_unary(&mut e, SZ_W, 5, rd4, F_DEC_W_1),
            0xd => do_unary(&mut e, SZ_W, 6, rd4, F_DEC_W_2),
            0x7 => {
                if rd4 < 8 {
                    do_unary(&mut e, SZ_L, 5, rd4, F_DEC_L_1)
                }
            }
            0xf => {
                if rd4 < 8 {
                    do_unary(&mut e, SZ_L, 6, rd4, F_DEC_L_2)
                }
            }
            _ => {}
        },
        0x1c => {
            let s = rb(&e.st.er, rs4) as u64;
            do_alu(&mut e, SZ_B, 2, rd4, s, F_CMP_B_RR, 1)
        }
        0x1d => {
            let s = rw(&e.st.er, rs4) as u64;
            do_alu(&mut e, SZ_W, 2, rd4, s, F_CMP_W_RR, 1)
        }
        0x1e => e.unimpl(F_U_SUBX_RR),
        0x1f => {
            if rs4 == 0 {
                e.unimpl(F_U_DAS)
            } else if rs4 >= 8 && rd4 < 8 {
                let s = rl(&e.st.er, rs4) as u64;
                do_alu(&mut e, SZ_L, 2, rd4, s, F_CMP_L_RR, 1)
            }
        }
        0x20..=0x3f => step_hn(&mut e, b0 >> 4, n_lo(b0), b1, m),
        0x40..=0x4f => step_hn(&mut e, 4, n_lo(b0), b1, m),
        0x50 => {
            // MULXU.B Rs,Rd : Rd (16-bit) = low byte of Rd x Rs
            let s = rb(&st.er, rs4) as u16;
            let d = rw(&st.er, rd4) & 0xff;
            e.exec(F_MULXU_B, 2);
            ww(&mut e.st.er, rd4, d.wrapping_mul(s));
            e.cyc(K_I, 1, 0);
            e.cyc(K_N, 12, 0);
        }
        0x52 => {
            if rd4 < 8 {
                let s = rw(&st.er, rs4) as u32;
                let d = rl(&st.er, rd4) & 0xffff;
                e.exec(F_MULXU_W, 2);
                wl(&mut e.st.er, rd4, d.wrapping_mul(s));
                e.cyc(K_I, 1, 0);
                e.cyc(K_N, 20, 0);
            }
        }
        0x51 => {
            let s = rb(&st.er, rs4) as u16;
            let d = rw(&st.er, rd4);
            e.exec(F_DIVXU_B, 2);
            e.flag(CCR_N, s & 0x80 != 0);
            e.flag(CCR_Z, s == 0);
            if wd.relax_div {
                if s == 0 {
                    e.pre = false;
                }
                let lane: u32 = if rd4 < 8 { 0x0000_ffff } else { 0xffff_0000 };
                e.free_er[(rd4 & 7) as usize] = lane;
            } else if s == 0 || d / s > 0xff {
                e.pre = false;
            } else {
                ww(&mut e.st.er, rd4, ((d % s) << 8) | (d / s));
            }
            e.cyc(K_I, 1, 0);
            e.cyc(K_N, 12, 0);
        }
        0x53 => {
            if rd4 < 8 {
                let s = rw(&st.er, rs4) as u32;
                let d = rl(&st.er, rd4);
                e.exec(F_DIVXU_W, 2);
                e.flag(CCR_N, s & 0x8000 != 0);
                e.flag(CCR_Z, s == 0);
                if wd.relax_div {
                    if s == 0 {
                        e.pre = false;
                    }
                    e.free_er[(rd4 & 7) as usize] = 0xffff_ffff;
                } else if s == 0 || d / s > 0xffff {
                    e.pre = false;
                } else {
                    wl(&mut e.st.er, rd4, ((d % s) << 16) | (d / s));
                }
                e.cyc(K_I, 1, 0);
                e.cyc(K_N, 20, 0);
            }
        }
        0x54 => {
            if b1 == 0x70 {
                let sp = rl(&st.er, 7);
                let a = sp & ADDR_MASK;
                e.exec(F_RTS, 2);
                stack_pre(&mut e, a);
                let v = e.rd32(m, a);
                e.st.pc = v & ADDR_MASK;
                wl(&mut e.st.er, 7, sp.wrapping_add(4));
                e.cyc(K_I, 2, 0);
                e.cyc(K_K, 2, a);
                e.cyc(K_N, 2, 0);
            }
        }
        0x55 => {
            e.exec(F_BSR_D8, 2);
            let ret = e.st.pc;
            let frame = push_ret(&mut e, ret);
            e.st.pc = ret.wrapping_add(sext8(b1)) & ADDR_MASK;
            e.cyc(K_I, 2, 0);
            e.cyc(K_K, 2, frame);
        }
        0x56 => {
            if b1 == 0x70 {
                let sp = rl(&st.er, 7);
                let a = sp & ADDR_MASK;
                e.exec(F_RTE, 2);
                stack_pre(&mut e, a);
                let v = e.rd32(m, a);
                e.st.ccr = (v >> 24) as u8;
                e.st.pc = v & ADDR_MASK;
                wl(&mut e.st.er, 7, sp.wrapping_add(4));
                e.cyc(K_I, 2, 0);
                e.cyc(K_K, 2, a);
                e.cyc(K_N, 2, 0);
            }
        }
        0x57 => {
            if b1 & 0xcf == 0 {
                let n = (b1 >> 4) & 3;
                if n == 0 {
                    // MES system call: specified separately (property C14)
                    e.exec(F_TRAPA_0, 2);
                } else {
                    e.exec(F_TRAPA_N, 2);
                    let ret = e.st.pc;
                    let frame = st.er[7].wrapping_sub(4) & ADDR_MASK;
                    exception_entry(&mut e, m, 8 + n as u32, ret);
                    e.cyc(K_I, 2, 0);
                    e.cyc(K_J, 2, 4 * (8 + n as u32));
                    e.cyc(K_K, 2, frame);
                    e.cyc(K_N, 4, 0);
                }
            }
        }
        0x58 => {
            if rd4 == 0 {
                e.exec(F_BCC_D16, 4);
                if cond(rs4, st.ccr) {
                    e.st.pc = e.st.pc.wrapping_add(sext16(w[0])) & ADDR_MASK;
                    if e.st.pc & 1 != 0 {
                        e.pre = false;
                    }
                }
                e.cyc(K_I, 2, 0);
                e.cyc(K_N, 2, 0);
            }
        }
        0x59 => {
            if b1 & 0x8f == 0 {
                e.exec(F_JMP_ERN, 2);
                e.st.pc = rl(&st.er, rs4) & ADDR_MASK;
                e.cyc(K_I, 2, 0);
            }
        }
        0x5a => {
            e.exec(F_JMP_A24, 4);
            e.st.pc = imm32(b1 as u16, w[0]) & ADDR_MASK;
            e.cyc(K_I, 2, 0);
            e.cyc(K_N, 2, 0);
        }
        0x5b => {
            e.exec(F_JMP_IND, 2);
            let va = b1 as u32;
            let t = e.rd32(m, va);
            e.st.pc = t & ADDR_MASK;
            e.cyc(K_I, 2, 0);
            e.cyc(K_J, 2, va);
            e.cyc(K_N, 2, 0);
        }
        0x5c => {
            if b1 == 0 {
                e.exec(F_BSR_D16, 4);
                let ret = e.st.pc;
                let frame = push_ret(&mut e, ret);
                e.st.pc = ret.wrapping_add(sext16(w[0])) & ADDR_MASK;
                e.cyc(K_I, 2, 0);
                e.cyc(K_K, 2, frame);
                e.cyc(K_N, 2, 0);
            }
        }
        0x5d => {
            if b1 & 0x8f == 0 {
                e.exec(F_JSR_ERN, 2);
                if rs4 & 7 == 7 {
                    e.pre = false; // JSR @ER7: which SP value is the target is not specified by the statements
                }
                let ret = e.st.pc;
                let target = rl(&st.er, rs4) & ADDR_MASK;
                let frame = push_ret(&mut e, ret);
                e.st.pc = target;
                e.cyc(K_I, 2, 0);
                e.cyc(K_K, 2, frame);
            }
        }
        0x5e => {
            e.exec(F_JSR_A24, 4);
            let ret = e.st.pc;
            let frame = push_ret(&mut e, ret);
            e.st.pc = imm32(b1 as u16, w[0]) & ADDR_MASK;
            e.cyc(K_I, 2, 0);
            e.cyc(K_K, 2, frame);
            e.cyc(K_N, 2, 0);
        }
        0x5f => {
            e.exec(F_JSR_IND, 2);
            let ret = e.st.pc;
            let va = b1 as u32;
            let t = e.rd32(m, va);
            let frame = push_ret(&mut e, ret);
            e.st.pc = t & ADDR_MASK;
            e.cyc(K_I, 2, 0);
            e.cyc(K_J, 2, va);
            e.cyc(K_K, 2, frame);
        }
        0x60..=0x63 | 0x67 | 0x70..=0x77 => do_bit_reg(&mut e, b0, b1),
        0x64 => {
            let s = rw(&e.st.er, rs4) as u64;
            do_alu(&mut e, SZ_W, 4, rd4, s, F_OR_W_RR, 1)
        }
        0x65 => {
            let s = rw(&e.st.er, rs4) as u64;
            do_alu(&mut e, SZ_W, 5, rd4, s, F_XOR_W_RR, 1)
        }
        0x66 => {
            let s = rw(&e.st.er, rs4) as u64;
            do_alu(&mut e, SZ_W, 3, rd4, s, F_AND_W_RR, 1)
        }
        0x68 | 0x69 => {
            let sz = if b0 == 0x68 { SZ_B } else { SZ_W };
            do_mov_mem(&mut e, m, sz, 0, rs4 & 8 != 0, rs4 & 7, 0, rd4, 1)
        }
        0x6e | 0x6f => {
            let sz = if b0 == 0x6e { SZ_B } else { SZ_W };
            do_mov_mem(&mut e, m, sz, 1, rs4 & 8 != 0, rs4 & 7, w[0] as u32, rd4, 2)
        }
        0x6c | 0x6d => {
            let sz = if b0 == 0x6c { SZ_B } else { SZ_W };
            do_mov_mem(&mut e, m, sz, 3, rs4 & 8 != 0, rs4 & 7, 0, rd4, 1)
        }
        0x6a | 0x6b => {
            let sz = if b0 == 0x6a { SZ_B } else { SZ_W };
            match rs4 {
                0x0 => do_mov_mem(&mut e, m, sz, 5, false, 0, w[0] as u32, rd4, 2),
                0x8 => do_mov_mem(&mut e, m, sz, 5, true, 0, w[0] as u32, rd4, 2),
                0x2 => {
                    if hi(w[0]) == 0 {
                        do_mov_mem(&mut e, m, sz, 6, false, 0, imm32(w[0], w[1]), rd4, 3)
                    }
                }
                0xa => {
                    if hi(w[0]) == 0 {
                        do_mov_mem(&mut e, m, sz, 6, true, 0, imm32(w[0], w[1]), rd4, 3)
                    }
                }
                0x4 => {
                    if b0 == 0x6a {
                        e.unimpl(F_U_MOVFPE)
                    }
                }
                0xc => {
                    if b0 == 0x6a {
                        e.unimpl(F_U_MOVTPE)
                    }
                }
                _ => {}
            }
        }
        0x78 => {
            // MOV.B/W @(d:24,ERn): 78 (0e)0  6A/6B 2r|Ar  00dd dddd
            if b1 & 0x8f == 0 && hi(w[1]) == 0 && (hi(w[0]) == 0x6a || hi(w[0]) == 0x6b) {
                let sz = if hi(w[0]) == 0x6a { SZ_B } else { SZ_W };
                let sel = n_hi(lo(w[0]));
                let r = n_lo(lo(w[0]));
                if sel == 0x2 {
                    do_mov_mem(&mut e, m, sz, 2, false, rs4, imm32(w[1], w[2]), r, 4)
                } else if sel == 0xa {
                    do_mov_mem(&mut e, m, sz, 2, true, rs4, imm32(w[1], w[2]), r, 4)
                }
            }
        }
        0x79 => {
            let imm = w[0] as u64;
            match rs4 {
                0 => do_mov_imm(&mut e, SZ_W, rd4, imm, F_MOV_W_IMM, 2),
                1 => do_alu(&mut e, SZ_W, 0, rd4, imm, F_ADD_W_IMM, 2),
                2 => do_alu(&mut e, SZ_W, 2, rd4, imm, F_CMP_W_IMM, 2),
                3 => do_alu(&mut e, SZ_W, 1, rd4, imm, F_SUB_W_IMM, 2),
                4 => do_alu(&mut e, SZ_W, 4, rd4, imm, F_OR_W_IMM, 2),
                5 => do_alu(&mut e, SZ_W, 5, rd4, imm, F_XOR_W_IMM, 2),
                6 => do_alu(&mut e, SZ_W, 3, rd4, imm, F_AND_W_IMM, 2),
                _ => {}
            }
        }
        0x7a => {
            if rd4 < 8 {
                let imm = imm32(w[0], w[1]) as u64;
                match rs4 {
                    0 => do_mov_imm(&mut e, SZ_L, rd4, imm, F_MOV_L_IMM, 3),
                    1 => do_alu(&mut e, SZ_L, 0, rd4, imm, F_ADD_L_IMM, 3),
                    2 => do_alu(&mut e, SZ_L, 2, rd4, imm, F_CMP_L_IMM, 3),
                    3 => do_alu(&mut e, SZ_L, 1, rd4, imm, F_SUB_L_IMM, 3),
                    4 => do_alu(&mut e, SZ_L, 4, rd4, imm, F_OR_L_IMM, 3),
                    5 => do_alu(&mut e, SZ_L, 5, rd4, imm, F_XOR_L_IMM, 3),
                    6 => do_alu(&mut e, SZ_L, 3, rd4, imm, F_AND_L_IMM, 3),
                    _ => {}
                }
            }
        }
        0x7b => {
            if (b1 == 0x5c || b1 == 0xd4) && w[0] == 0x598f {
                e.unimpl(F_U_EEPMOV)
            }
        }
        0x7c | 0x7d => {
            if b1 & 0x8f == 0 {
                let ea = rl(&st.er, rs4) & ADDR_MASK;
                do_bit_mem(&mut e, m, w[0], ea, 1, b0 == 0x7d)
            }
        }
        0x7e | 0x7f => {
            let ea = 0xffff00 | b1 as u32;
            do_bit_mem(&mut e, m, w[0], ea, 2, b0 == 0x7f)
        }
        0x80..=0xff => step_hn(&mut e, b0 >> 4, n_lo(b0), b1, m),
        _ => {}
    }
    let _ = pc;
    e
}

fn step_addx(e: &mut Exp, rd: u8, src: u8, form: u16) {
    let d = rb(&e.st.er, rd) as u64;
    let cin = if e.c() { 1 } else { 0 };
    let z0 = e.st.ccr & CCR_Z != 0;
    e.exec(form, 2);
    let a = alu_add(SZ_B, d, src as u64, cin);
    set_hnzvc(e, &a);
    // Z: previous value kept when the result is zero, cleared otherwise
    e.flag(CCR_Z, z0 && a.z);
    wb(&mut e.st.er, rd, a.res as u8);
    e.cyc(K_I, 1, 0);
}

/// MOV.L memory forms behind the 0100 prefix
fn step_mov_l<M: Mem>(e: &mut Exp, w: &[u16; 4], m: &mut M) {
    let x = hi(w[0]);
    let y = lo(w[0]);
    let a = n_hi(y);
    let r = n_lo(y);
    if r & 8 != 0 {
        return;
    }
    match x {
        0x69 => do_mov_mem(e, m, SZ_L, 0, a & 8 != 0, a & 7, 0, r, 2),
        0x6f => do_mov_mem(e, m, SZ_L, 1, a & 8 != 0, a & 7, w[1] as u32, r, 3),
        0x6d => do_mov_mem(e, m, SZ_L, 3, a & 8 != 0, a & 7, 0, r, 2),
        0x6b => match a {
            0x0 => do_mov_mem(e, m, SZ_L, 5, false, 0, w[1] as u32, r, 3),
            0x8 => do_mov_mem(e, m, SZ_L, 5, true, 0, w[1] as u32, r, 3),
            0x2 => {
                if hi(w[1]) == 0 {
                    do_mov_mem(e, m, SZ_L, 6, false, 0, imm32(w[1], w[2]), r, 4)
                }
            }
            0xa => {
                if hi(w[1]) == 0 {
                    do_mov_mem(e, m, SZ_L, 6, true, 0, imm32(w[1], w[2]), r, 4)
                }
            }
            _ => {}
        },
        0x78 => {
            // load : 0100 78 (0s)0 6B 2(0d) 00dd dddd      store: 0100 78 (1d)0 6B A(0s) 00dd dddd
            // (the long store sets bit 7 of the address-register byte like every other MOV.L store form;
            //  checked against the GNU assembler's encodings, e.g. 01 00 78 90 6b a1 = mov.l er1,@(d:24,er1))
            if y & 0x0f == 0 && hi(w[1]) == 0x6b && hi(w[2]) == 0 {
                let sel = n_hi(lo(w[1]));
                let rr = n_lo(lo(w[1]));
                if rr & 8 == 0 {
                    if sel == 0x2 && a & 8 == 0 {
                        do_mov_mem(e, m, SZ_L, 2, false, a, imm32(w[2], w[3]), rr, 5)
                    } else if sel == 0xa && a & 8 != 0 {
                        do_mov_mem(e, m, SZ_L, 2, true, a & 7, imm32(w[2], w[3]), rr, 5)
                    }
                }
            }
        }
        _ => {}
    }
}

/// STC.W CCR,<ea> behind the 0140 prefix (LDC.W = same second word with bit 7 of the register byte clear)
fn step_stc_w(e: &mut Exp, w: &[u16; 4]) {
    let x = hi(w[0]);
    let y = lo(w[0]);
    let a = n_hi(y);
    let base = rl(&e.st.er, a);
    // the stored word: CCR in the byte at the even address; the other byte is not specified by any
    // property, so both byte values are left open here (only EA, length and cost are claimed)
    let stc = |e: &mut Exp, form: u16, words: u32, ea: u32, predec: bool| {
        e.exec(form, 2 * words);
        e.note_w(ea, 0, false);
        e.note_w(ea.wrapping_add(1), 0, false);
        if predec {
            wl(&mut e.st.er, a, base.wrapping_sub(2));
        }
        e.cyc(K_I, words as u8, 0);
        e.cyc(K_M, 1, ea);
        if predec {
            e.cyc(K_N, 2, 0);
        }
    };
    match x {
        0x69 => {
            if y & 0x0f == 0 {
                if a & 8 != 0 {
                    stc(e, F_STC_W_ERN, 2, base & ADDR_MASK, false)
                } else {
                    e.unimpl(F_U_LDC_W)
                }
            }
        }
        0x6f => {
            if y & 0x0f == 0 {
                if a & 8 != 0 {
                    stc(e, F_STC_W_D16, 3, base.wrapping_add(sext16(w[1])) & ADDR_MASK, false)
                } else {
                    e.unimpl(F_U_LDC_W)
                }
            }
        }
        0x6d => {
            if y & 0x0f == 0 {
                if a & 8 != 0 {
                    stc(e, F_STC_W_DEC, 2, base.wrapping_sub(2) & ADDR_MASK, true)
                } else {
                    e.unimpl(F_U_LDC_W)
                }
            }
        }
        0x78 => {
            // 0140 78 (0e)0 6BA0|6B20 00dd dddd
            if y & 0x8f == 0 && hi(w[2]) == 0 {
                if w[1] == 0x6ba0 {
                    stc(e, F_STC_W_D24, 5, base.wrapping_add(sext24(imm32(w[2], w[3]))) & ADDR_MASK, false)
                } else if w[1] == 0x6b20 {
                    e.unimpl(F_U_LDC_W)
                }
            }
        }
        0x6b => match y {
            0x80 => stc(e, F_STC_W_A16, 3, sext16(w[1]) & ADDR_MASK, false),
            0xa0 => {
                if hi(w[1]) == 0 {
                    stc(e, F_STC_W_A24, 4, imm32(w[1], w[2]) & ADDR_MASK, false)
                }
            }
            0x00 => e.unimpl(F_U_LDC_W),
            0x20 => {
                if hi(w[1]) == 0 {
                    e.unimpl(F_U_LDC_W)
                }
            }
            _ => {}
        },
        _ => {}
    }
}

/// forms whose first byte is <nibble><register|condition>
fn step_hn<M: Mem>(e: &mut Exp, hn: u8, r: u8, b1: u8, m: &mut M) {
    match hn {
        0x2 => do_mov_mem(e, m, SZ_B, 4, false, 0, b1 as u32, r, 1),
        0x3 => do_mov_mem(e, m, SZ_B, 4, true, 0, b1 as u32, r, 1),
        0x4 => {
            let ccr0 = e.st.ccr;
            e.exec(F_BCC_D8, 2);
            if cond(r, ccr0) {
                e.st.pc = e.st.pc.wrapping_add(sext8(b1)) & ADDR_MASK;
                if e.st.pc & 1 != 0 {
                    e.pre = false; // odd targets are outside C05's quantifier (C15 only asks for no panic)
                }
            }
            e.cyc(K_I, 2, 0);
        }
        0x8 => do_alu(e, SZ_B, 0, r, b1 as u64, F_ADD_B_IMM, 1),
        0x9 => step_addx(e, r, b1, F_ADDX_IMM),
        0xa => do_alu(e, SZ_B, 2, r, b1 as u64, F_CMP_B_IMM, 1),
        0xb => e.unimpl(F_U_SUBX_IMM),
        0xc => do_alu(e, SZ_B, 4, r, b1 as u64, F_OR_B_IMM, 1),
        0xd => do_alu(e, SZ_B, 5, r, b1 as u64, F_XOR_B_IMM, 1),
        0xe => do_alu(e, SZ_B, 3, r, b1 as u64, F_AND_B_IMM, 1),
        0xf => do_mov_imm(e, SZ_B, r, b1 as u64, F_MOV_B_IMM, 1),
        _ => {}
    }
}
