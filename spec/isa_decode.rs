// ---------------------------------------------------------------- decode + step
include!("isa_forms.rs");

/// instruction words: b0,b1 = first word (high byte kept separate so that a harness can keep it
/// concrete), w[0..4] = the following words
#[derive(Clone, Copy)]
pub struct Words {
    /// relaxed DIVXU: do not compute quotient/remainder, leave the destination lanes open (used where the
    /// SAT-level equivalence of two dividers is out of reach; flags, frame, PC and cost stay exact)
    pub relax_div: bool,
    /// concrete high nibble of b0 for the one-byte-opcode forms, 0xff = no hint
    pub hn: u8,
    pub b0: u8,
    pub b1: u8,
    pub w: [u16; 4],
}

fn hi(x: u16) -> u8 {
    (x >> 8) as u8
}
fn lo(x: u16) -> u8 {
    x as u8
}
fn n_hi(b: u8) -> u8 {
    b >> 4
}
fn n_lo(b: u8) -> u8 {
    b & 0xf
}
fn imm32(a: u16, b: u16) -> u32 {
    ((a as u32) << 16) | b as u32
}

// ALU ops on registers -------------------------------------------------------
// op: 0 ADD 1 SUB 2 CMP 3 AND 4 OR 5 XOR
fn do_alu(e: &mut Exp, sz: Sz, op: u8, rd: u8, src: u64, form: u16, words: u32) {
    let d = rreg(&e.st.er, sz, rd);
    e.exec(form, 2 * words);
    match op {
        0 => {
            let a = alu_add(sz, d, src, 0);
            set_hnzvc(e, &a);
            wreg(&mut e.st.er, sz, rd, a.res);
        }
        1 | 2 => {
            let a = alu_sub(sz, d, src, 0);
            set_hnzvc(e, &a);
            if op == 1 {
                wreg(&mut e.st.er, sz, rd, a.res);
            }
        }
        _ => {
            let r = match op {
                3 => d & src,
                4 => d | src,
                _ => d ^ src,
            } & sz.mask();
            set_nz_v0(e, sz, r);
            wreg(&mut e.st.er, sz, rd, r);
        }
    }
    e.cyc(K_I, words as u8, 0);
}

fn do_unary(e: &mut Exp, sz: Sz, kind: u8, rd: u8, form: u16) {
    // kind: 0 NOT 1 NEG 2 EXTU 3 INC1 4 INC2 5 DEC1 6 DEC2
    let d = rreg(&e.st.er, sz, rd);
    e.exec(form, 2);
    match kind {
        0 => {
            let r = !d & sz.mask();
            set_nz_v0(e, sz, r);
            wreg(&mut e.st.er, sz, rd, r);
        }
        1 => {
            let a = alu_sub(sz, 0, d, 0);
            set_hnzvc(e, &a);
            wreg(&mut e.st.er, sz, rd, a.res);
        }
        2 => {
            let r = d & (sz.mask() >> (sz.bits / 2));
            e.flag(CCR_N, false);
            e.flag(CCR_Z, r == 0);
            e.flag(CCR_V, false);
            wreg(&mut e.st.er, sz, rd, r);
        }
        3 | 4 => {
            let a = alu_add(sz, d, (kind - 2) as u64, 0);
            set_nzv(e, &a);
            wreg(&mut e.st.er, sz, rd, a.res);
        }
        _ => {
            let a = alu_sub(sz, d, (kind - 4) as u64, 0);
            set_nzv(e, &a);
            wreg(&mut e.st.er, sz, rd, a.res);
        }
    }
    e.cyc(K_I, 1, 0);
}

fn do_shift(e: &mut Exp, sz: Sz, op: u8, rd: u8, form: u16) {
    let d = rreg(&e.st.er, sz, rd);
    let cin = e.c();
    e.exec(form, 2);
    let a = alu_shift(sz, op, d, cin);
    e.flag(CCR_N, a.n);
    e.flag(CCR_Z, a.z);
    e.flag(CCR_V, a.v);
    e.flag(CCR_C, a.c);
    wreg(&mut e.st.er, sz, rd, a.res);
    e.cyc(K_I, 1, 0);
}

// bit operations ---------------------------------------------------------------
// op: 0 BSET 1 BNOT 2 BCLR 3 BTST 4 BST 5 BIST 6 BLD 7 BILD 8 BAND 9 BIAND 10 BOR 11 BIOR 12 BXOR 13 BIXOR
fn bit_is_write(op: u8) -> bool {
    op <= 2 || op == 4 || op == 5
}
/// returns the new operand byte (for writing ops); updates flags in e
fn bit_apply(e: &mut Exp, op: u8, v: u8, n: u8) -> u8 {
    let n = n & 7;
    let m = 1u8 << n;
    let b = v & m != 0;
    let c = e.c();
    match op {
        0 => v | m,
        1 => v ^ m,
        2 => v & !m,
        3 => {
            e.flag(CCR_Z, !b);
            v
        }
        4 => {
            if c {
                v | m
            } else {
                v & !m
            }
        }
        5 => {
            if !c {
                v | m
            } else {
                v & !m
            }
        }
        6 => {
            e.flag(CCR_C, b);
            v
        }
        7 => {
            e.flag(CCR_C, !b);
            v
        }
        8 => {
            e.flag(CCR_C, c && b);
            v
        }
        9 => {
            e.flag(CCR_C, c && !b);
            v
        }
        10 => {
            e.flag(CCR_C, c || b);
            v
        }
        11 => {
            e.flag(CCR_C, c || !b);
            v
        }
        12 => {
            e.flag(CCR_C, c != b);
            v
        }
        _ => {
            e.flag(CCR_C, c != !b);
            v
        }
    }
}

/// second-level decode shared by the register form (first word) and the memory forms (second word).
/// Returns (op, bitno_is_reg, bitfield) or None.  `x`= opcode byte, `y` = operand byte (n/i nibble, low nibble)
fn bit_decode(x: u8, y: u8) -> Option<(u8, bool, u8)> {
    let i = n_hi(y);
    match x {
        0x60 => Some((0, true, i)),
        0x61 => Some((1, true, i)),
        0x62 => Some((2, true, i)),
        0x63 => Some((3, true, i)),
        0x70 | 0x71 | 0x72 | 0x73 => {
            if i & 8 != 0 {
                None
            } else {
                Some((x - 0x70, false, i))
            }
        }
        0x67 => Some((if i & 8 == 0 { 4 } else { 5 }, false, i & 7)),
        0x77 => Some((if i & 8 == 0 { 6 } else { 7 }, false, i & 7)),
        0x76 => Some((if i & 8 == 0 { 8 } else { 9 }, false, i & 7)),
        0x74 => Some((if i & 8 == 0 { 10 } else { 11 }, false, i & 7)),
        0x75 => Some((if i & 8 == 0 { 12 } else { 13 }, false, i & 7)),
        _ => None,
    }
}

/// form id for (op, bit-number source, location) location: 0 reg 1 @ERn 2 @aa:8
fn bit_form(op: u8, by_reg: bool, loc: u8) -> u16 {
    let l = loc as u16;
    match op {
        0 => F_BSET_IMM_R + if by_reg { 1 } else { 0 } + 2 * l,
        1 => F_BNOT_IMM_R + if by_reg { 1 } else { 0 } + 2 * l,
        2 => F_BCLR_IMM_R + if by_reg { 1 } else { 0 } + 2 * l,
        3 => F_BTST_IMM_R + if by_reg { 1 } else { 0 } + 2 * l,
        4 => F_BST_R + l,
        5 => F_BIST_R + l,
        6 => F_BLD_R + l,
        7 => F_BILD_R + l,
        8 => F_BAND_R + l,
        9 => F_BIAND_R + l,
        10 => F_BOR_R + l,
        11 => F_BIOR_R + l,
        12 => F_BXOR_R + l,
        _ => F_BIXOR_R + l,
    }
}

fn do_bit_reg(e: &mut Exp, b0: u8, b1: u8) {
    if let Some((op, by_reg, f)) = bit_decode(b0, b1) {
        let n = if by_reg { rb(&e.st.er, f) } else { f };
        let rd = n_lo(b1);
        let v = rb(&e.st.er, rd);
        e.exec(bit_form(op, by_reg, 0), 2);
        let nv = bit_apply(e, op, v, n);
        if bit_is_write(op) {
            wb(&mut e.st.er, rd, nv);
        }
        e.cyc(K_I, 1, 0);
    }
}

fn do_bit_mem<M: Mem>(e: &mut Exp, m: &mut M, w1: u16, ea: u32, loc: u8, prefix_writes: bool) {
    // low nibble of the second word must be 0
    if n_lo(lo(w1)) != 0 {
        return;
    }
    if let Some((op, by_reg, f)) = bit_decode(hi(w1), lo(w1)) {
        // 7C/7E prefixes carry the testing ops, 7D/7F the modifying ones
        if bit_is_write(op) != prefix_writes {
            return;
        }
        let n = if by_reg { rb(&e.st.er, f) } else { f };
        e.exec(bit_form(op, by_reg, loc), 4);
        let v = e.rd8(m, ea);
        let nv = bit_apply(e, op, v, n);
        e.cyc(K_I, 2, 0);
        if bit_is_write(op) {
            e.wr8(ea, nv);
            e.cyc(K_L, 2, ea);
        } else {
            e.cyc(K_L, 1, ea);
        }
    }
}

// MOV --------------------------------------------------------------------------
// mode: 0 @ERn 1 @(d16) 2 @(d24) 3 @ERn+/@-ERn 4 @aa:8 5 @aa:16 6 @aa:24
fn mov_form(sz: Sz, mode: u8, store: bool) -> u16 {
    let s = if store { 1 } else { 0 };
    if sz.bits == 8 {
        F_MOV_B_LD_ERN + 2 * mode as u16 + s
    } else if sz.bits == 16 {
        // no @aa:8 for W/L
        F_MOV_W_LD_ERN + 2 * (if mode >= 5 { mode - 1 } else { mode }) as u16 + s
    } else {
        F_MOV_L_LD_ERN + 2 * (if mode >= 5 { mode - 1 } else { mode }) as u16 + s
    }
}

/// memory <-> register move. `areg` address register (3 bit) where applicable, `disp_or_abs` the
/// already assembled displacement / absolute address, `dreg` the data register field.
fn do_mov_mem<M: Mem>(e: &mut Exp, m: &mut M, sz: Sz, mode: u8, store: bool, areg: u8, x: u32, dreg: u8, words: u32) {
    let bytes = sz.bits / 8;
    let base = rl(&e.st.er, areg);
    let kind = if sz.bits == 8 { K_L } else { K_M };
    let count = if sz.bits == 32 { 2 } else { 1 };
    // +/- forms: the data register must not overlap the address register (quantifier of C01)
    if mode == 3 && (dreg & 7) == (areg & 7) {
        e.pre = false;
    }
    let ea = match mode {
        0 => base & ADDR_MASK,
        1 => base.wrapping_add(sext16(x as u16)) & ADDR_MASK,
        2 => base.wrapping_add(sext24(x)) & ADDR_MASK,
        3 => {
            if store {
                base.wrapping_sub(bytes) & ADDR_MASK
            } else {
                base & ADDR_MASK
            }
        }
        4 => 0xffff00 | (x & 0xff),
        5 => sext16(x as u16) & ADDR_MASK,
        _ => x & ADDR_MASK,
    };
    e.exec(mov_form(sz, mode, store), 2 * words);
    if store {
        let v = rreg(&e.st.er, sz, dreg);
        set_nz_v0(e, sz, v);
        if sz.bits == 8 {
            e.wr8(ea, v as u8);
        } else if sz.bits == 16 {
            e.wr16(ea, v as u16);
        } else {
            e.wr32(ea, v as u32);
        }
        if mode == 3 {
            wl(&mut e.st.er, areg, base.wrapping_sub(bytes));
        }
    } else {
        let v: u64 = if sz.bits == 8 {
            e.rd8(m, ea) as u64
        } else if sz.bits == 16 {
            e.rd16(m, ea) as u64
        } else {
            e.rd32(m, ea) as u64
        };
        set_nz_v0(e, sz, v);
        if mode == 3 {
            wl(&mut e.st.er, areg, base.wrapping_add(bytes));
        }
        wreg(&mut e.st.er, sz, dreg, v);
    }
    e.cyc(K_I, words as u8, 0);
    e.cyc(kind, count, ea);
    if mode == 3 {
        e.cyc(K_N, 2, 0);
    }
}

fn do_mov_reg(e: &mut Exp, sz: Sz, rs: u8, rd: u8, form: u16) {
    let v = rreg(&e.st.er, sz, rs);
    e.exec(form, 2);
    set_nz_v0(e, sz, v);
    wreg(&mut e.st.er, sz, rd, v);
    e.cyc(K_I, 1, 0);
}
fn do_mov_imm(e: &mut Exp, sz: Sz, rd: u8, v: u64, form: u16, words: u32) {
    e.exec(form, 2 * words);
    set_nz_v0(e, sz, v);
    wreg(&mut e.st.er, sz, rd, v);
    e.cyc(K_I, words as u8, 0);
}

include!("isa_step.rs");
