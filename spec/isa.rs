// Reference semantics of one H8/300H instruction step (advanced mode), written from the
// H8/300H Series Programming Manual and the property statements in /verif/properties.jsonl,
// NOT from the emulator.  Plain loop-free safe Rust: the same text is the oracle inside the
// Kani harnesses (symbolic inputs) and in the native replay/search (concrete inputs).
//
// `step(st, words, mem)` returns the expected outcome `Exp` of executing the instruction whose
// words are `words[0..]` located at `st.pc`:
//   * `kind`   Exec (valid encoding of an implemented instruction), Unimpl (manual instruction the
//              emulator documents as missing -> must be rejected), Undef (no constraint)
//   * `st`     expected registers / CCR / PC after the step
//   * `w[..]`  expected memory writes (address, value, value-known?)
//   * `r[..]`  data addresses the instruction is allowed/expected to read (fetches excluded)
//   * `cy[..]` the manual's bus-cycle mix: (kind, count, address the cycle is costed at)
//   * `pre`    false when the input is outside the property's quantifier (e.g. DIVXU by zero)
//   * `free_*` parts of the result the statements leave open
//
// This file is part of the trusted base (see DESIGN.md Appendix B).

pub const K_I: u8 = 0; // instruction fetch
pub const K_J: u8 = 1; // branch address read
pub const K_K: u8 = 2; // stack
pub const K_L: u8 = 3; // byte data
pub const K_M: u8 = 4; // word data
pub const K_N: u8 = 5; // internal

pub const CCR_C: u8 = 0x01;
pub const CCR_V: u8 = 0x02;
pub const CCR_Z: u8 = 0x04;
pub const CCR_N: u8 = 0x08;
pub const CCR_U: u8 = 0x10;
pub const CCR_H: u8 = 0x20;
pub const CCR_UI: u8 = 0x40;
pub const CCR_I: u8 = 0x80;

pub const ADDR_MASK: u32 = 0x00ff_ffff;

/// The address map of the property C09 statement.
/// cost class of an address: 8 = on-chip RAM, 0..7 = external area, 9 = outside the 16 MiB space
pub fn cost_class(a: u32) -> u8 {
    if a >= 0xffbf20 && a <= 0xffff1f {
        8
    } else if a <= 0xffffff {
        (a >> 21) as u8
    } else {
        9
    }
}

pub fn mapped(a: u32) -> bool {
    a <= 0x0000ff
        || (a >= 0x400000 && a <= 0x5fffff)
        || (a >= 0xfee000 && a <= 0xfee0ff)
        || (a >= 0xffbf20 && a <= 0xffff1f)
        || (a >= 0xffff20 && a <= 0xffffe9)
}

#[derive(Clone, Copy, PartialEq, Eq, Debug)]
pub struct St {
    pub er: [u32; 8],
    pub ccr: u8,
    pub pc: u32,
}

/// View of memory as it was BEFORE the step.
pub trait Mem {
    fn rd(&mut self, addr: u32) -> u8;
}

#[derive(Clone, Copy, PartialEq, Eq, Debug)]
pub enum Kind {
    Exec,
    Unimpl,
    Undef,
}

pub const MAX_W: usize = 4;
pub const MAX_R: usize = 12;
pub const MAX_CY: usize = 4;

#[derive(Clone, Copy, Debug)]
pub struct Exp {
    pub kind: Kind,
    pub form: u16,
    pub pre: bool,
    pub st: St,
    pub len: u32,
    pub nw: usize,
    pub w: [(u32, u8, bool); MAX_W],
    pub nr: usize,
    pub r: [u32; MAX_R],
    pub ncy: usize,
    pub cy: [(u8, u8, u32); MAX_CY],
    /// CCR bits whose final value the statements leave open (e.g. UI on exception entry)
    pub free_ccr: u8,
    /// register bits this evaluation of the oracle leaves open (relaxed DIVXU variant)
    pub free_er: [u32; 8],
    /// every expected access is inside mapped memory
    pub all_mapped: bool,
}

impl Exp {
    pub fn new(st: &St) -> Exp {
        Exp {
            kind: Kind::Undef,
            form: 0,
            pre: true,
            st: *st,
            len: 0,
            nw: 0,
            w: [(0, 0, false); MAX_W],
            nr: 0,
            r: [0; MAX_R],
            ncy: 0,
            cy: [(0, 0, 0); MAX_CY],
            free_ccr: 0,
            free_er: [0; 8],
            all_mapped: true,
        }
    }
    fn exec(&mut self, form: u16, len: u32) {
        self.kind = Kind::Exec;
        self.form = form;
        self.len = len;
        self.st.pc = self.st.pc.wrapping_add(len) & ADDR_MASK;
    }
    fn unimpl(&mut self, form: u16) {
        self.kind = Kind::Unimpl;
        self.form = form;
    }
    fn cyc(&mut self, kind: u8, n: u8, addr: u32) {
        if self.ncy < MAX_CY {
            self.cy[self.ncy] = (kind, n, addr);
            self.ncy += 1;
        }
    }
    fn note_r(&mut self, a: u32) {
        if self.nr < MAX_R {
            self.r[self.nr] = a;
            self.nr += 1;
        }
        if !mapped(a) {
            self.all_mapped = false;
        }
    }
    fn note_w(&mut self, a: u32, v: u8, known: bool) {
        if self.nw < MAX_W {
            self.w[self.nw] = (a, v, known);
            self.nw += 1;
        }
        if !mapped(a) {
            self.all_mapped = false;
        }
    }
    pub fn rd8<M: Mem>(&mut self, m: &mut M, a: u32) -> u8 {
        self.note_r(a);
        m.rd(a)
    }
    pub fn rd16<M: Mem>(&mut self, m: &mut M, a: u32) -> u16 {
        let h = self.rd8(m, a) as u16;
        let l = self.rd8(m, a.wrapping_add(1)) as u16;
        (h << 8) | l
    }
    pub fn rd32<M: Mem>(&mut self, m: &mut M, a: u32) -> u32 {
        let h = self.rd16(m, a) as u32;
        let l = self.rd16(m, a.wrapping_add(2)) as u32;
        (h << 16) | l
    }
    pub fn wr8(&mut self, a: u32, v: u8) {
        self.note_w(a, v, true);
    }
    pub fn wr16(&mut self, a: u32, v: u16) {
        self.wr8(a, (v >> 8) as u8);
        self.wr8(a.wrapping_add(1), v as u8);
    }
    pub fn wr32(&mut self, a: u32, v: u32) {
        self.wr16(a, (v >> 16) as u16);
        self.wr16(a.wrapping_add(2), v as u16);
    }
    /// 4-byte frame whose top byte is not constrained by the statement (BSR/JSR)
    pub fn wr32_low24(&mut self, a: u32, v: u32) {
        self.note_w(a, 0, false);
        self.wr8(a.wrapping_add(1), (v >> 16) as u8);
        self.wr8(a.wrapping_add(2), (v >> 8) as u8);
        self.wr8(a.wrapping_add(3), v as u8);
    }
    pub fn flag(&mut self, bit: u8, on: bool) {
        if on {
            self.st.ccr |= bit;
        } else {
            self.st.ccr &= !bit;
        }
    }
    pub fn c(&self) -> bool {
        self.st.ccr & CCR_C != 0
    }
}

// ---------------------------------------------------------------- register file lanes

pub fn rb(er: &[u32; 8], r: u8) -> u8 {
    let r = r & 0xf;
    if r < 8 {
        (er[r as usize] >> 8) as u8
    } else {
        er[(r - 8) as usize] as u8
    }
}
pub fn wb(er: &mut [u32; 8], r: u8, v: u8) {
    let r = r & 0xf;
    if r < 8 {
        er[r as usize] = (er[r as usize] & 0xffff_00ff) | ((v as u32) << 8);
    } else {
        er[(r - 8) as usize] = (er[(r - 8) as usize] & 0xffff_ff00) | v as u32;
    }
}
pub fn rw(er: &[u32; 8], r: u8) -> u16 {
    let r = r & 0xf;
    if r < 8 {
        er[r as usize] as u16
    } else {
        (er[(r - 8) as usize] >> 16) as u16
    }
}
pub fn ww(er: &mut [u32; 8], r: u8, v: u16) {
    let r = r & 0xf;
    if r < 8 {
        er[r as usize] = (er[r as usize] & 0xffff_0000) | v as u32;
    } else {
        er[(r - 8) as usize] = (er[(r - 8) as usize] & 0x0000_ffff) | ((v as u32) << 16);
    }
}
pub fn rl(er: &[u32; 8], r: u8) -> u32 {
    er[(r & 7) as usize]
}
pub fn wl(er: &mut [u32; 8], r: u8, v: u32) {
    er[(r & 7) as usize] = v;
}

pub fn sext8(v: u8) -> u32 {
    v as i8 as i32 as u32
}
pub fn sext16(v: u16) -> u32 {
    v as i16 as i32 as u32
}
pub fn sext24(v: u32) -> u32 {
    if v & 0x80_0000 != 0 {
        v | 0xff00_0000
    } else {
        v & 0x00ff_ffff
    }
}

include!("isa_alu.rs");
include!("isa_decode.rs");
