// ---------------------------------------------------------------- ALU reference (sizes: 0=B 1=W 2=L)

#[derive(Clone, Copy)]
pub struct Sz {
    pub bits: u32,
}
pub const SZ_B: Sz = Sz { bits: 8 };
pub const SZ_W: Sz = Sz { bits: 16 };
pub const SZ_L: Sz = Sz { bits: 32 };

impl Sz {
    pub fn mask(self) -> u64 {
        (1u64 << self.bits) - 1
    }
    pub fn sign(self) -> u64 {
        1u64 << (self.bits - 1)
    }
    /// mask of the bits below the half-carry position (bit 3 / 11 / 27 is the last one inside)
    pub fn hmask(self) -> u64 {
        (1u64 << (self.bits - 4)) - 1
    }
}

pub struct Alu {
    pub res: u64,
    pub h: bool,
    pub n: bool,
    pub z: bool,
    pub v: bool,
    pub c: bool,
}

/// d + s + cin
pub fn alu_add(sz: Sz, d: u64, s: u64, cin: u64) -> Alu {
    let d = d & sz.mask();
    let s = s & sz.mask();
    let full = d + s + cin;
    let res = full & sz.mask();
    let h = (d & sz.hmask()) + (s & sz.hmask()) + cin > sz.hmask();
    let c = full > sz.mask();
    // signed overflow: operands have the same sign and the result's sign differs
    let v = ((d ^ res) & (s ^ res) & sz.sign()) != 0;
    Alu { res, h, n: res & sz.sign() != 0, z: res == 0, v, c }
}

/// d - s - bin
pub fn alu_sub(sz: Sz, d: u64, s: u64, bin: u64) -> Alu {
    let d = d & sz.mask();
    let s = s & sz.mask();
    let res = d.wrapping_sub(s).wrapping_sub(bin) & sz.mask();
    let h = (d & sz.hmask()) < (s & sz.hmask()) + bin;
    let c = d < s + bin;
    let v = ((d ^ s) & (d ^ res) & sz.sign()) != 0;
    Alu { res, h, n: res & sz.sign() != 0, z: res == 0, v, c }
}

pub fn set_hnzvc(e: &mut Exp, a: &Alu) {
    e.flag(CCR_H, a.h);
    e.flag(CCR_N, a.n);
    e.flag(CCR_Z, a.z);
    e.flag(CCR_V, a.v);
    e.flag(CCR_C, a.c);
}
pub fn set_nzv(e: &mut Exp, a: &Alu) {
    e.flag(CCR_N, a.n);
    e.flag(CCR_Z, a.z);
    e.flag(CCR_V, a.v);
}
/// N,Z from value, V cleared (MOV, logic)
pub fn set_nz_v0(e: &mut Exp, sz: Sz, v: u64) {
    let v = v & sz.mask();
    e.flag(CCR_N, v & sz.sign() != 0);
    e.flag(CCR_Z, v == 0);
    e.flag(CCR_V, false);
}

/// generic register lane access by size; `r` is the 4-bit field for B/W and the 3-bit field for L
pub fn rreg(er: &[u32; 8], sz: Sz, r: u8) -> u64 {
    if sz.bits == 8 {
        rb(er, r) as u64
    } else if sz.bits == 16 {
        rw(er, r) as u64
    } else {
        rl(er, r) as u64
    }
}
pub fn wreg(er: &mut [u32; 8], sz: Sz, r: u8, v: u64) {
    if sz.bits == 8 {
        wb(er, r, v as u8)
    } else if sz.bits == 16 {
        ww(er, r, v as u16)
    } else {
        wl(er, r, v as u32)
    }
}

/// shift / rotate group. op: 0 SHLL 1 SHAL 2 SHLR 3 SHAR 4 ROTXL 5 ROTL 6 ROTXR 7 ROTR
pub fn alu_shift(sz: Sz, op: u8, d: u64, cin: bool) -> Alu {
    let d = d & sz.mask();
    let msb = d & sz.sign() != 0;
    let lsb = d & 1 != 0;
    let (res, c) = match op {
        0 | 1 => ((d << 1) & sz.mask(), msb),
        2 => (d >> 1, lsb),
        3 => ((d >> 1) | (d & sz.sign()), lsb),
        4 => (((d << 1) & sz.mask()) | cin as u64, msb),
        5 => (((d << 1) & sz.mask()) | msb as u64, msb),
        6 => ((d >> 1) | if cin { sz.sign() } else { 0 }, lsb),
        _ => ((d >> 1) | if lsb { sz.sign() } else { 0 }, lsb),
    };
    let n = res & sz.sign() != 0;
    // SHAL: V = 1 exactly when the sign bit changes
    let v = op == 1 && (n != msb);
    Alu { res, h: false, n, z: res == 0, v, c }
}

/// the 16 branch conditions
pub fn cond(cc: u8, ccr: u8) -> bool {
    let c = ccr & CCR_C != 0;
    let v = ccr & CCR_V != 0;
    let z = ccr & CCR_Z != 0;
    let n = ccr & CCR_N != 0;
    match cc & 0xf {
        0x0 => true,
        0x1 => false,
        0x2 => !(c || z),
        0x3 => c || z,
        0x4 => !c,
        0x5 => c,
        0x6 => !z,
        0x7 => z,
        0x8 => !v,
        0x9 => v,
        0xa => !n,
        0xb => n,
        0xc => n == v,
        0xd => n != v,
        0xe => !(z || (n != v)),
        _ => z || (n != v),
    }
}
