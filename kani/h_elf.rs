// C11/C12 - BOUNDED stand-in: the REAL elf::load (real nom parsers, real string handling) on a minimal
// structurally valid ELF32-BE image with CONCRETE layout and SYMBOLIC contents.
//   layout: 2 program headers (PT_LOAD filesz 16 / memsz 24 at vaddr 0; one non-load header, position
//   selectable), 6 section headers (null, .got 2 entries inside the segment, .stack, .symtab 2 symbols,
//   .strtab, .shstrtab), argument string "ab  c" (two words, double blank)
//   symbolic: the 16 payload bytes (8 plain + the two GOT words), the value of ___exit, the declared
//   stack size (0..=0xFFFF), which program header comes first.
// read_elf (file I/O) is stubbed to return the image.
use super::*;
use crate::cpu::Cpu;

static mut IMAGE: Vec<u8> = Vec::new();

fn stub_read_elf(_path: String) -> Vec<u8> {
    unsafe { IMAGE.clone() }
}

fn be32(v: &mut Vec<u8>, x: u32) {
    v.extend_from_slice(&x.to_be_bytes());
}
fn be16(v: &mut Vec<u8>, x: u16) {
    v.extend_from_slice(&x.to_be_bytes());
}

const SHSTR: &[u8] = b"\0.got\0.stack\0.symtab\0.strtab\0.shstrtab\0";
const STRTAB: &[u8] = b"\0_start\0___exit\0";
const BASE: u32 = 0x416900;
const DRAM0: u32 = 0x400000;

pub struct Img {
    pub payload: [u8; 16],
    pub exit_value: u32,
    pub stack_size: u32,
    pub nonload_first: bool,
}

fn build(img: &Img) -> Vec<u8> {
    let phoff = 52u32;
    let payload_off = phoff + 2 * 32;
    let symtab_off = payload_off + 16;
    let strtab_off = symtab_off + 2 * 16;
    let shstr_off = strtab_off + STRTAB.len() as u32;
    let shoff = shstr_off + SHSTR.len() as u32;
    let mut v: Vec<u8> = Vec::new();
    v.extend_from_slice(&[0x7f, b'E', b'L', b'F', 1, 2, 1, 0, 0, 0, 0, 0, 0, 0, 0, 0]);
    be16(&mut v, 2);
    be16(&mut v, 46);
    be32(&mut v, 1);
    be32(&mut v, 0);
    be32(&mut v, phoff);
    be32(&mut v, shoff);
    be32(&mut v, 0);
    be16(&mut v, 52);
    be16(&mut v, 32);
    be16(&mut v, 2);
    be16(&mut v, 40);
    be16(&mut v, 6);
    be16(&mut v, 5);
    let load = |v: &mut Vec<u8>| {
        be32(v, 1);
        be32(v, payload_off);
        be32(v, 0);
        be32(v, 0);
        be32(v, 16);
        be32(v, 24);
        be32(v, 7);
        be32(v, 4);
    };
    let nonload = |v: &mut Vec<u8>| {
        be32(v, 0x6474e551);
        let mut i = 0;
        while i < 7 {
            be32(v, 0);
            i += 1;
        }
    };
    if img.nonload_first {
        nonload(&mut v);
        load(&mut v);
    } else {
        load(&mut v);
        nonload(&mut v);
    }
    v.extend_from_slice(&img.payload);
    // symtab: null symbol, ___exit
    let mut i = 0;
    while i < 4 {
        be32(&mut v, 0);
        i += 1;
    }
    be32(&mut v, 8); // name "___exit" at offset 8 of strtab
    be32(&mut v, img.exit_value);
    be32(&mut v, 0);
    v.push(0x12);
    v.push(0);
    be16(&mut v, 1);
    v.extend_from_slice(STRTAB);
    v.extend_from_slice(SHSTR);
    // section headers: name, type, flags, addr, offset, size, link, info, align, entsize
    let sh = |v: &mut Vec<u8>, name: u32, ty: u32, addr: u32, off: u32, size: u32, link: u32, ent: u32| {
        be32(v, name);
        be32(v, ty);
        be32(v, 0);
        be32(v, addr);
        be32(v, off);
        be32(v, size);
        be32(v, link);
        be32(v, 0);
        be32(v, 4);
        be32(v, ent);
    };
    sh(&mut v, 0, 0, 0, 0, 0, 0, 0);
    sh(&mut v, 1, 1, 8, payload_off + 8, 8, 0, 4); // .got : two entries at vaddr 8
    sh(&mut v, 6, 8, img.stack_size, 0, 0, 0, 0); // .stack : sh_addr = declared size
    sh(&mut v, 13, 2, 0, symtab_off, 32, 4, 16); // .symtab
    sh(&mut v, 21, 3, 0, strtab_off, STRTAB.len() as u32, 0, 0); // .strtab
    sh(&mut v, 29, 3, 0, shstr_off, SHSTR.len() as u32, 0, 0); // .shstrtab
    v
}

fn dram(cpu: &Cpu, addr: u32) -> u8 {
    cpu.bus.dram[(addr - DRAM0) as usize]
}
fn dram32(cpu: &Cpu, addr: u32) -> u32 {
    (dram(cpu, addr) as u32) << 24 | (dram(cpu, addr + 1) as u32) << 16 | (dram(cpu, addr + 2) as u32) << 8 | dram(cpu, addr + 3) as u32
}

#[kani::proof]
#[kani::unwind(70)]
#[kani::stub(read_elf, stub_read_elf)]
fn c11_c12_load_bounded() {
    let mut payload = [0u8; 16];
    let mut i = 0;
    while i < 16 {
        payload[i] = kani::any();
        i += 1;
    }
    let img = Img { payload, exit_value: kani::any(), stack_size: kani::any(), nonload_first: kani::any() };
    kani::assume(img.stack_size <= 0xffff);
    kani::assume(img.exit_value <= 0x00ff_ffff);
    let g0 = u32::from_be_bytes([payload[8], payload[9], payload[10], payload[11]]);
    let g1 = u32::from_be_bytes([payload[12], payload[13], payload[14], payload[15]]);
    // entry values whose sum with the load base still fits 32 bits (a sum carrying into the top byte is inside)
    kani::assume(g0 <= 0xffff_ffff - BASE && g1 <= 0xffff_ffff - BASE);
    unsafe {
        IMAGE = build(&img);
    }
    *crate::setting::ENABLE_PRINT_OPCODE.write().unwrap() = false;
    let mut cpu = Cpu::new();
    load("prog.elf".to_string(), &mut cpu, "ab  c".to_string());
    // ---- C11
    let mut same = true;
    let mut k = 0;
    while k < 8 {
        if dram(&cpu, BASE + k) != payload[k as usize] {
            same = false;
        }
        k += 1;
    }
    assert!(same, "OBL:C11/load/segment_file_bytes_present_at_base_plus_vaddr");
    assert!(dram32(&cpu, BASE + 8) == g0.wrapping_add(BASE) && dram32(&cpu, BASE + 12) == g1.wrapping_add(BASE), "OBL:C11/load/got_entries_relocated_exactly_once_big_endian");
    let mut zero = true;
    k = 16;
    while k < 24 {
        if dram(&cpu, BASE + k) != 0 {
            zero = false;
        }
        k += 1;
    }
    assert!(zero, "OBL:C11/load/bytes_beyond_file_contents_read_zero");
    assert!(dram(&cpu, BASE - 1) == 0 && dram(&cpu, BASE + 24) == 0, "OBL:C11/load/neighbours_of_the_image_untouched");
    let mut other = true;
    let probe: usize = kani::any();
    kani::assume(probe < cpu.bus.memory.len());
    if cpu.bus.memory[probe] != 0 {
        other = false;
    }
    let pv: usize = kani::any();
    kani::assume(pv < 0x100);
    if cpu.bus.exception_handling_vector[pv] != 0 || cpu.bus.io_registrs1[pv] != 0 {
        other = false;
    }
    assert!(other, "OBL:C11/load/nothing_outside_dram_modified");
    // ---- C12
    assert!(cpu.er[2] == BASE, "OBL:C12/load/start_address_is_load_base");
    assert!(cpu.er[5] == BASE + 8, "OBL:C12/load/er5_is_runtime_address_of_got");
    let image_end = BASE + 24; // highest PT_LOAD extent
    let stack_end = (image_end + img.stack_size + 3) & !3;
    assert!(cpu.er[7] & 3 == 0 && cpu.er[7] == stack_end - 8, "OBL:C12/load/sp_8_below_aligned_end_of_stack_region_above_the_image");
    assert!(cpu.er[0] == 3, "OBL:C12/load/argc_is_1_plus_number_of_words");
    let argv = cpu.er[1];
    assert!(argv >= stack_end + 88 && argv & 3 == 0 && argv < stack_end + 88 + 8, "OBL:C12/load/argv_block_above_88_byte_tcb_area");
    let p0 = dram32(&cpu, argv);
    let p1 = dram32(&cpu, argv + 4);
    let p2 = dram32(&cpu, argv + 8);
    assert!(dram32(&cpu, argv + 12) == 0, "OBL:C12/load/argv_null_terminated");
    assert!(p0 == argv + 16, "OBL:C12/load/strings_follow_the_pointer_table");
    let s0 = b"prog.elf\0";
    let mut ok = true;
    let mut j = 0;
    while j < 9 {
        if dram(&cpu, p0 + j) != s0[j as usize] {
            ok = false;
        }
        j += 1;
    }
    assert!(ok, "OBL:C12/load/argv0_is_prog_elf");
    assert!(p1 == p0 + 9 && dram(&cpu, p1) == b'a' && dram(&cpu, p1 + 1) == b'b' && dram(&cpu, p1 + 2) == 0, "OBL:C12/load/word1_copied_nul_terminated");
    assert!(p2 == p1 + 3 && dram(&cpu, p2) == b'c' && dram(&cpu, p2 + 1) == 0, "OBL:C12/load/word2_copied_nul_terminated");
    assert!(cpu.exit_addr == img.exit_value + BASE, "OBL:C12/load/exit_address_is_symbol_plus_base");
    kani::cover!(img.nonload_first, "COVER:nonload_header_first");
    kani::cover!(!img.nonload_first, "COVER:nonload_header_last");
    kani::cover!(true, "REACH:end");
}
