// C14 - TRAPA #0 MES system calls: contracts on the REAL Cpu::trapa / trapa_emulate_mes2
// (bus seam, message seam).  set_handler and unknown ids: loop-free, complete.
// write (id 104): the byte loop is bounded by the guest-supplied length -> BOUNDED (length <= 4).
use super::isa;
use super::kstep::*;
use super::seam::{self, seam};
use super::super::*;
use crate::bus::Bus;

fn setup_trap0(cpu: &mut Cpu) -> u32 {
    let pc0 = PC_DEFAULT;
    cpu.pc = pc0 + 2;
    cpu.operating_pc = pc0;
    pc0
}

fn no_writes_outside(lo1: u32, lo2: u32) -> bool {
    let s = seam();
    let mut ok = true;
    let mut i = 0;
    while i < seam::N_WR {
        if i < s.nw {
            let a = s.wr[i].0;
            if !((a >= lo1 && a < lo1 + 4) || (a >= lo2 && a < lo2 + 4)) {
                ok = false;
            }
        }
        i += 1;
    }
    ok
}

#[kani::proof]
#[kani::stub(Bus::read, seam::bus_read)]
#[kani::stub(Bus::write, seam::bus_write)]
#[kani::stub(Cpu::calc_state_with_addr, seam::cost)]
#[kani::stub(Cpu::send_message, seam::cpu_send_message)]
#[kani::stub(Cpu::send_stdout_message, seam::cpu_send_stdout_message)]
#[kani::stub(Cpu::read_abs24_b, seam::forbidden_read_b)]
fn c14_set_handler() {
    let mut cpu = new_cpu();
    let pc0 = setup_trap0(&mut cpu);
    cpu.er[0] = 113;
    let argp = cpu.er[1];
    kani::assume(argp <= 0x00ff_fff0);
    // ordinary placement of the argument block (C14 quantifies over buffers in on-chip RAM and DRAM)
    kani::assume((argp >= 0xffbf20 && argp <= 0xffff1f - 8) || (argp >= 0x400000 && argp <= 0x5fffff - 8));
    let er0 = cpu.er;
    let ccr0 = cpu.ccr;
    let vector = (seam().init_val(argp) as u32) << 24 | (seam().init_val(argp + 1) as u32) << 16 | (seam().init_val(argp + 2) as u32) << 8 | seam().init_val(argp + 3) as u32;
    let address = (seam().init_val(argp + 4) as u32) << 24 | (seam().init_val(argp + 5) as u32) << 16 | (seam().init_val(argp + 6) as u32) << 8 | seam().init_val(argp + 7) as u32;
    let r = cpu.trapa(0x5700);
    assert!(r.is_ok(), "OBL:C14/set_handler/ok");
    assert!(cpu.er == er0 && cpu.ccr == ccr0, "OBL:C14/set_handler/registers_sp_ccr_unchanged");
    assert!(cpu.pc == pc0 + 2, "OBL:C14/set_handler/continues_at_next_instruction");
    assert!(seam().msgs == 0 && seam().stdout_msgs == 0, "OBL:C14/set_handler/no_message");
    if vector >= 1 && vector <= 63 {
        // installed: the vector entry's low 24 bits are the handler address; only the entry and the
        // MES GOT-save word (H'FFFD10 + 4*vector) are written
        assert!(no_writes_outside(4 * vector, 0xfffd10 + 4 * vector), "OBL:C14/set_handler/writes_only_vector_entry_and_got_save");
        // ... so that a later interrupt of that vector enters `address` (real exception entry on the result)
        kani::assume(stack_in_ram_c14(cpu.er[7]));
        let r2 = cpu.interrupt(vector as u8);
        assert!(r2.is_ok() && cpu.pc == address & isa::ADDR_MASK, "OBL:C14/set_handler/later_interrupt_enters_address");
        kani::cover!(address > 0xa600_0000, "COVER:address_with_high_top_byte");
    } else {
        assert!(seam().nw == 0, "OBL:C14/set_handler/other_vectors_ignored");
    }
    kani::cover!(vector == 63, "COVER:vector63");
    kani::cover!(vector == 0, "COVER:vector0");
    kani::cover!(true, "REACH:end");
}

fn stack_in_ram_c14(sp: u32) -> bool {
    let f = sp.wrapping_sub(4) & isa::ADDR_MASK;
    // on-chip RAM below the GOT-save table, or DRAM
    (f >= 0xffbf20 && f <= 0xfffd00) || (f >= 0x400000 && f <= 0x5fffff - 3)
}

#[kani::proof]
#[kani::stub(Bus::read, seam::bus_read)]
#[kani::stub(Bus::write, seam::bus_write)]
#[kani::stub(Cpu::calc_state_with_addr, seam::cost)]
#[kani::stub(Cpu::send_message, seam::cpu_send_message)]
#[kani::stub(Cpu::send_stdout_message, seam::cpu_send_stdout_message)]
#[kani::stub(Cpu::read_abs24_b, seam::forbidden_read_b)]
fn c14_unknown_call_is_error() {
    let mut cpu = new_cpu();
    let _pc0 = setup_trap0(&mut cpu);
    kani::assume(cpu.er[0] != 104 && cpu.er[0] != 113);
    let er0 = cpu.er;
    let ccr0 = cpu.ccr;
    let r = cpu.trapa(0x5700);
    assert!(r.is_err(), "OBL:C14/unknown_id/stops_with_error");
    assert!(seam().nw == 0 && seam().msgs == 0 && seam().stdout_msgs == 0, "OBL:C14/unknown_id/no_effect");
    assert!(cpu.er == er0 && cpu.ccr == ccr0, "OBL:C14/unknown_id/registers_unchanged");
    kani::cover!(true, "REACH:end");
}

/// BOUNDED stand-in for the write call: argument block at a fixed address, concrete length 0..=4
/// (one harness per length, so the guest-length loop has a concrete bound and unwinds completely);
/// buffer address and contents symbolic.
macro_rules! c14_write_len {
    ($name:ident, $len:expr) => {
        #[kani::proof]
        #[kani::stub(Bus::read, seam::bus_read)]
        #[kani::stub(Bus::write, seam::bus_write)]
        #[kani::stub(Cpu::calc_state_with_addr, seam::cost)]
        #[kani::stub(Cpu::send_message, seam::cpu_send_message)]
        #[kani::stub(Cpu::send_stdout_message, seam::cpu_send_stdout_message)]
        #[kani::stub(std::string::String::from_utf8, seam::from_utf8_ascii)]
        fn $name() {
            let mut cpu = new_cpu();
            let pc0 = setup_trap0(&mut cpu);
            cpu.er[0] = 104;
            let argp: u32 = 0xffc200;
            cpu.er[1] = argp;
            let length: u32 = $len;
            // length word, concrete
            seam().seed(argp + 8, 0);
            seam().seed(argp + 9, 0);
            seam().seed(argp + 10, 0);
            seam().seed(argp + 11, length as u8);
            let er0 = cpu.er;
            let ccr0 = cpu.ccr;
            let rd32 = |a: u32| -> u32 { (seam().init_val(a) as u32) << 24 | (seam().init_val(a + 1) as u32) << 16 | (seam().init_val(a + 2) as u32) << 8 | seam().init_val(a + 3) as u32 };
            let buffer = rd32(argp + 4);
            kani::assume((buffer >= 0xffbf20 && buffer <= 0xffff1f - 4) || (buffer >= 0x400000 && buffer <= 0x5fffff - 4));
            let r = cpu.trapa(0x5700);
            // the bytes the buffer held BEFORE the call (the seam's pre-state view); looked up after the
            // call so that the argument block stays concrete while the real code runs
            let b = [seam().init_val(buffer), seam().init_val(buffer + 1), seam().init_val(buffer + 2), seam().init_val(buffer + 3)];
            // ASCII payloads (always valid UTF-8)
            kani::assume(b[0] < 0x80 && b[1] < 0x80 && b[2] < 0x80 && b[3] < 0x80);
            assert!(r.is_ok(), "OBL:C14/write/ok");
            let s = seam();
            assert!(s.stdout_msgs == 1, "OBL:C14/write/exactly_one_stdout_message");
            assert!(s.stdout_len == length as usize, "OBL:C14/write/exactly_length_bytes");
            assert!((length < 1 || s.stdout_bytes[0] == b[0]) && (length < 2 || s.stdout_bytes[1] == b[1]) && (length < 3 || s.stdout_bytes[2] == b[2]) && (length < 4 || s.stdout_bytes[3] == b[3]),
                "OBL:C14/write/bytes_at_buffer_in_order");
            assert!(s.nw == 0, "OBL:C14/write/memory_unchanged");
            assert!(cpu.er == er0 && cpu.ccr == ccr0, "OBL:C14/write/registers_sp_ccr_unchanged");
            assert!(cpu.pc == pc0 + 2, "OBL:C14/write/continues_at_next_instruction");
            kani::cover!(true, "REACH:end");
        }
    };
}
c14_write_len!(c14_write_len0, 0);
c14_write_len!(c14_write_len1, 1);
c14_write_len!(c14_write_len2, 2);
c14_write_len!(c14_write_len3, 3);
c14_write_len!(c14_write_len4, 4);
