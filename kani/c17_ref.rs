// Tick-by-tick reference of the 8-bit timer, written from the C17 statement; shared by the Kani harnesses
// (kani/h_c17.rs) and the native bounded stand-in (kani/native_c17.rs).
const O_TCSR: usize = (TCSR0_8 - IO_REGISTERS2_EMC1_START_ADDR) as usize;
const O_TCORA: usize = (TCORA0 - IO_REGISTERS2_EMC1_START_ADDR) as usize;
const O_TCORB: usize = (TCORB0 - IO_REGISTERS2_EMC1_START_ADDR) as usize;
const O_TCNT: usize = (TCNT0_8 - IO_REGISTERS2_EMC1_START_ADDR) as usize;

fn divisor(tcr: u8) -> u16 {
    match tcr & 7 {
        1 => 8,
        2 => 64,
        3 => 8192,
        _ => 0,
    }
}

struct RefT {
    tcnt: u8,
    tcsr: u8,
    req: [u32; 3],
}

/// one count, as the statement describes it
fn tick(t: &mut RefT, tcr: u8, tcora: u8, tcorb: u8) {
    let (n, ovf) = t.tcnt.overflowing_add(1);
    let mut next = n;
    if n == tcora {
        t.tcsr |= 0x40; // CMFA
        if tcr & 0x40 != 0 {
            t.req[0] += 1;
        }
        if tcr & 0x18 == 0x08 {
            next = 0;
        }
    }
    if n == tcorb {
        t.tcsr |= 0x80; // CMFB
        if tcr & 0x80 != 0 {
            t.req[1] += 1;
        }
        if tcr & 0x18 == 0x10 {
            next = 0;
        }
    }
    if ovf {
        t.tcsr |= 0x20; // OVF
        if tcr & 0x20 != 0 {
            t.req[2] += 1;
        }
    }
    t.tcnt = next;
}

