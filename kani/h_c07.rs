// C07 - decode: contract on the REAL Cpu::fetch + Cpu::exec with every first-level target replaced by
// a recording stub (generated per run from the dispatcher's own text, kani/gen_c07.py):
//   valid encoding of an implemented form F  ->  exactly the entry of F is called, once, with the
//       instruction words that encode it, after exactly the words the entry expects were consumed
//       (the entry's own operand consumption is the `pc` clause of F's instruction contract)
//   encoding of a manual instruction the emulator does not implement  ->  Err and no handler runs
//   anything else: unconstrained
use super::isa;
use super::kstep::*;
use super::seam::{self, seam};
use super::super::*;
use crate::bus::Bus;

static mut CALLED: u16 = 0;
static mut NCALLS: u32 = 0;
static mut A1: u16 = 0;
static mut A2: u16 = 0;
static mut PC_AT_CALL: u32 = 0;

fn rec(id: u16, c: &mut Cpu, a: u16, b: u16) -> anyhow::Result<u8> {
    unsafe {
        CALLED = id;
        NCALLS += 1;
        A1 = a;
        A2 = b;
        PC_AT_CALL = c.pc;
    }
    Ok(1)
}

include!(concat!(env!("KOGE29_VERIF_DIR"), "/kani/c07_gen.rs"));
include!(concat!(env!("KOGE29_VERIF_DIR"), "/kani/c07_guard_gen.rs"));

/// used by the any-encoding harnesses of C15 (thorough tier)
pub fn exec_guard_pub(id: u16, op: u16, op2: u16) -> bool {
    exec_guard(id, op, op2)
}

/// one named obligation per unimplemented manual instruction: rejected, never run as another instruction
macro_rules! unimpl_obligations {
    ($form:expr, $ok:expr, [$($u:ident),*]) => {
        $(
            if $form == isa::f::$u {
                assert!($ok, concat!("OBL:C07/exec/", stringify!($u), "/rejected_never_run_as_another_instruction"));
            }
        )*
    };
}

/// first byte of the instruction in lo..=hi (the ranges partition 0..=255)
fn dispatch_contract(lo: u8, hi: u8) {
    let mut cpu = new_cpu();
    let pc0 = PC_DEFAULT;
    let b0: u8 = kani::any();
    kani::assume(b0 >= lo && b0 <= hi);
    let b1: u8 = kani::any();
    let w: [u16; 4] = [kani::any(), kani::any(), kani::any(), kani::any()];
    let su = setup(&mut cpu, pc0, 0xff, b0, b1, w, 0);
    let opcode = cpu.fetch();
    let res = cpu.exec(opcode);
    let exp = isa::step(&su.st0, &su.wd, &mut seam::InitView);
    let (called, ncalls, a1, a2, pcc) = unsafe { (CALLED, NCALLS, A1, A2, PC_AT_CALL) };
    let first = ((b0 as u16) << 8) | b1 as u16;
    // self-check of the generated guards (what exec guarantees about the words it hands to a target): whenever a
    // target was called, the guard generated for it from exec's text holds for the words exec passed
    assert!(ncalls != 1 || exec_guard(called, first, w[0]), "OBL:SELF/dispatch/generated_guards_hold");
    match exp.kind {
        isa::Kind::Exec => {
            let (want, pre, k1, k2) = expected(exp.form);
            assert!(want != 0, "OBL:SELF/dispatch/form_without_table_entry");
            assert!(ncalls == 1 && called == want, "OBL:C07/exec/valid_encoding_runs_exactly_its_own_instruction");
            assert!((k1 != 1 || a1 == first) && (k1 != 2 || a1 == w[0]) && (k2 != 2 || a2 == w[0]), "OBL:C07/exec/handler_receives_the_words_that_encode_it");
            assert!(pcc == pc0 + 2 * pre, "OBL:C07/exec/dispatcher_consumes_exactly_the_prefix_words");
        }
        isa::Kind::Unimpl => {
            let rej = allowed_rejector(exp.form, w[0]);
            let ok = (ncalls == 0 && res.is_err()) || (rej != 0 && ncalls == 1 && called == rej);
            unimpl_obligations!(exp.form, ok, [U_NOP, U_SLEEP, U_LDC_B_R, U_LDC_B_IMM, U_LDC_W, U_ORC, U_XORC, U_ANDC, U_SUBX_IMM, U_SUBX_RR, U_DAA, U_DAS,
                U_EXTS_W, U_EXTS_L, U_MULXS, U_DIVXS, U_EEPMOV, U_MOVFPE, U_MOVTPE]);
        }
        isa::Kind::Undef => {}
    }
    kani::cover!(exp.kind == isa::Kind::Exec, "COVER:exec");
    kani::cover!(exp.kind == isa::Kind::Unimpl, "COVER:unimpl");
    kani::cover!(true, "REACH:end");
}

c07_dispatch!(c07_dispatch_00_0f, 0x00, 0x0f);
c07_dispatch!(c07_dispatch_10_3f, 0x10, 0x3f);
c07_dispatch!(c07_dispatch_40_6f, 0x40, 0x6f);
c07_dispatch!(c07_dispatch_70_7f, 0x70, 0x7f);
c07_dispatch!(c07_dispatch_80_ff, 0x80, 0xff);

/// second-level dispatchers that receive unimplemented encodings must reject them themselves
#[kani::proof]
#[kani::stub(Bus::read, seam::bus_read)]
#[kani::stub(Bus::write, seam::bus_write)]
#[kani::stub(Cpu::calc_state_with_addr, seam::cost)]
fn c07_mov_b_rejects_movfpe_movtpe() {
    let mut cpu = new_cpu();
    let b1: u8 = kani::any();
    kani::assume(b1 & 0x70 == 0x40); // 6A 4r / 6A Cr
    let w: [u16; 4] = [kani::any(), kani::any(), kani::any(), kani::any()];
    let su = setup(&mut cpu, PC_DEFAULT, 0xff, 0x6a, b1, w, 1);
    let er0 = cpu.er;
    let res = cpu.mov_b(0x6a00 | b1 as u16);
    let exp = isa::step(&su.st0, &su.wd, &mut seam::InitView);
    assert!(exp.kind == isa::Kind::Unimpl, "OBL:SELF/reject/encoding_class");
    assert!(res.is_err() && cpu.er == er0 && seam().nw == 0, "OBL:C07/mov_b/rejects_MOVFPE_MOVTPE");
    kani::cover!(true, "REACH:end");
}

#[kani::proof]
#[kani::stub(Bus::read, seam::bus_read)]
#[kani::stub(Bus::write, seam::bus_write)]
#[kani::stub(Cpu::calc_state_with_addr, seam::cost)]
fn c07_stc_w_disp24_rejects_ldc() {
    let mut cpu = new_cpu();
    let r: u16 = kani::any();
    kani::assume(r & 0xff8f == 0x7800);
    let w: [u16; 4] = [r, 0x6b20, kani::any::<u16>() & 0x00ff, kani::any()];
    let su = setup(&mut cpu, PC_DEFAULT, 0xff, 0x01, 0x40, w, 2);
    let er0 = cpu.er;
    let res = cpu.stc_w_disp24(r);
    let exp = isa::step(&su.st0, &su.wd, &mut seam::InitView);
    assert!(exp.kind == isa::Kind::Unimpl && exp.form == isa::f::U_LDC_W, "OBL:SELF/reject_ldc/encoding_class");
    assert!(res.is_err() && cpu.er == er0 && seam().nw == 0, "OBL:C07/stc_w_disp24/rejects_LDC_W_d24");
    kani::cover!(true, "REACH:end");
}

/// An unimplemented / illegal opcode is reported as an error wherever the code lives (the error message of the
/// dispatcher contains address arithmetic; the anyhow shim evaluates message arguments for exactly this reason).
fn unimplemented_opcode_at_any_code_address() {
    let mut cpu = new_cpu();
    let pc0 = any_code_pc();
    // NOP, SLEEP, ORC, EXTS.W, EEPMOV prefix, an undefined first byte: all take an `unimpl!` exit of exec
    let sel: u8 = kani::any();
    let first: u16 = match sel % 6 {
        0 => 0x0000,
        1 => 0x0180,
        2 => 0x0400,
        3 => 0x17d0,
        4 => 0x7b5c,
        _ => 0x1e00,
    };
    let w: [u16; 4] = [kani::any(), kani::any(), kani::any(), kani::any()];
    let _ = setup(&mut cpu, pc0, 0xff, (first >> 8) as u8, first as u8, w, 0);
    let opcode = cpu.fetch();
    let r = cpu.exec(opcode);
    assert!(r.is_err(), "OBL:C15/exec/unimplemented_opcode_is_an_error_at_any_code_address");
    kani::cover!(pc0 < 0x416900, "COVER:code_below_the_load_base");
    kani::cover!(true, "REACH:end");
}
c07_stubbed_harness!(c15_unimplemented_opcode_at_any_code_address, unimplemented_opcode_at_any_code_address);
