// Native witness search and replay (module crate::cpu::verif_hooks::native, cfg(all(test, not(kani)))).
// The verifier's verdict decides; this only looks for a concrete input of the REAL code (real Bus, real
// cost functions, no stubs) on which the same clause of the same form's contract fails, and replays one.
//   KOGE29_FORM=<FORM> KOGE29_CLAUSE=<clause> VERIF_SEED=<n> KOGE29_BUDGET_MS=<ms>   -> prints `WITNESS {json}`
//   KOGE29_REPLAY='<json>'                                                            -> prints before/after
use super::isa;
use super::super::*;
use crate::bus::Bus;

pub struct NForm {
    pub name: &'static str,
    pub oracle: u16,
    pub sym_pc: bool,
    pub regmask: u32,
    pub relax: bool,
    pub b0: (u8, u8),
    pub b1: (u8, u8),
    pub w: [(u16, u16); 4],
    pub pre: u32,
    pub call: fn(&mut Cpu, u16, u16) -> anyhow::Result<u8>,
}
include!(concat!(env!("KOGE29_VERIF_DIR"), "/kani/forms_native.rs"));

struct Rng(u64);
impl Rng {
    fn next(&mut self) -> u64 {
        self.0 ^= self.0 << 13;
        self.0 ^= self.0 >> 7;
        self.0 ^= self.0 << 17;
        self.0
    }
    fn u32(&mut self) -> u32 {
        (self.next() >> 16) as u32
    }
    fn below(&mut self, n: u32) -> u32 {
        self.u32() % n
    }
    fn value(&mut self) -> u32 {
        const POOL: [u32; 12] = [0, 1, 2, 0x7f, 0x80, 0xff, 0x7fff, 0x8000, 0xffff, 0x7fff_ffff, 0x8000_0000, 0xffff_ffff];
        match self.below(4) {
            0 => POOL[self.below(12) as usize],
            1 => {
                let a = POOL[self.below(12) as usize];
                let b = POOL[self.below(12) as usize];
                (a << 16) ^ b
            }
            _ => self.u32(),
        }
    }
    fn address(&mut self) -> u32 {
        let base = match self.below(8) {
            0 => 0xffbf20 + self.below(16),
            1 => 0xffff1f - self.below(16),
            2 => 0x400000 + self.below(16),
            3 => 0x5fffff - self.below(16),
            4 => 0xffc000 + self.below(0x3000),
            5 => 0x410000 + self.below(0x1000),
            6 => self.below(0x110),
            _ => 0xffff00 + self.below(0x100),
        };
        let top = if self.below(3) == 0 { self.below(256) << 24 } else { 0 };
        top | base
    }
}

struct RealMem<'a>(&'a Bus);
impl<'a> isa::Mem for RealMem<'a> {
    fn rd(&mut self, a: u32) -> u8 {
        self.0.read(a).unwrap_or(0)
    }
}

fn plain(a: u32) -> bool {
    // storage without peripheral side effects when poked through Bus::write
    a <= 0xff || (a >= 0x400000 && a <= 0x5fffff) || (a >= 0xffbf20 && a <= 0xffff1f)
}

#[derive(Clone)]
pub struct Input {
    pub er: [u32; 8],
    pub ccr: u8,
    pub pc: u32,
    pub b0: u8,
    pub b1: u8,
    pub w: [u16; 4],
    pub mem: Vec<(u32, u8)>,
}

fn to_json(form: &str, clause: &str, i: &Input, detail: &str) -> String {
    let mem: Vec<String> = i.mem.iter().map(|(a, v)| format!("[{},{}]", a, v)).collect();
    format!(
        "{{\"form\":\"{}\",\"clause\":\"{}\",\"er\":[{}],\"ccr\":{},\"pc\":{},\"words\":[{},{},{},{},{}],\"mem\":[{}],\"detail\":\"{}\"}}",
        form,
        clause,
        i.er.iter().map(|x| x.to_string()).collect::<Vec<_>>().join(","),
        i.ccr,
        i.pc,
        ((i.b0 as u16) << 8) | i.b1 as u16,
        i.w[0],
        i.w[1],
        i.w[2],
        i.w[3],
        mem.join(","),
        detail.replace('"', "'")
    )
}

fn nums(s: &str) -> Vec<u64> {
    s.split(|c: char| !c.is_ascii_digit()).filter(|x| !x.is_empty()).map(|x| x.parse().unwrap()).collect()
}
fn field<'a>(j: &'a str, key: &str) -> &'a str {
    let k = format!("\"{}\":", key);
    let i = j.find(&k).expect("key") + k.len();
    let rest = &j[i..];
    if rest.starts_with('[') {
        let mut d = 0;
        for (n, c) in rest.char_indices() {
            if c == '[' {
                d += 1
            } else if c == ']' {
                d -= 1;
                if d == 0 {
                    return &rest[..=n];
                }
            }
        }
        rest
    } else if rest.starts_with('"') {
        let e = rest[1..].find('"').unwrap();
        &rest[1..=e]
    } else {
        let e = rest.find(|c| c == ',' || c == '}').unwrap();
        &rest[..e]
    }
}
fn from_json(j: &str) -> (String, String, Input) {
    let er = nums(field(j, "er"));
    let w = nums(field(j, "words"));
    let m = nums(field(j, "mem"));
    let mut i = Input { er: [0; 8], ccr: nums(field(j, "ccr"))[0] as u8, pc: nums(field(j, "pc"))[0] as u32, b0: (w[0] >> 8) as u8, b1: w[0] as u8, w: [w[1] as u16, w[2] as u16, w[3] as u16, w[4] as u16], mem: vec![] };
    for k in 0..8 {
        i.er[k] = er[k] as u32;
    }
    for c in m.chunks(2) {
        i.mem.push((c[0] as u32, c[1] as u8));
    }
    (field(j, "form").to_string(), field(j, "clause").to_string(), i)
}

pub struct Outcome {
    pub failed: Vec<(&'static str, String)>,
    pub applicable: bool,
    pub after: String,
    pub expected: String,
}

/// runs the real handler of `f` on `inp` (memory pokes applied to a fresh Cpu) and evaluates the contract clauses
pub fn evaluate(f: &NForm, inp: &mut Input, rng: Option<&mut Rng>) -> Outcome {
    *crate::setting::ENABLE_PRINT_OPCODE.write().unwrap() = false;
    let mut cpu = Cpu::new();
    cpu.er = inp.er;
    cpu.ccr = inp.ccr;
    let pc0 = inp.pc;
    let code = [inp.b0, inp.b1, (inp.w[0] >> 8) as u8, inp.w[0] as u8, (inp.w[1] >> 8) as u8, inp.w[1] as u8, (inp.w[2] >> 8) as u8, inp.w[2] as u8, (inp.w[3] >> 8) as u8, inp.w[3] as u8];
    for (k, b) in code.iter().enumerate() {
        let _ = cpu.bus.write(pc0 + k as u32, *b);
    }
    for (a, v) in inp.mem.iter() {
        if plain(*a) && !(*a >= pc0 && *a < pc0 + 10) {
            let _ = cpu.bus.write(*a, *v);
        }
    }
    let st0 = isa::St { er: cpu.er, ccr: cpu.ccr, pc: pc0 };
    let hn = if f.b0.1 == 0x0f { f.b0.0 >> 4 } else { 0xff };
    let wd = isa::Words { relax_div: f.relax, hn, b0: inp.b0, b1: inp.b1, w: inp.w };
    // first oracle pass: which data addresses are read -> give them random contents (search mode only)
    if let Some(r) = rng {
        let e1 = isa::step(&st0, &wd, &mut RealMem(&cpu.bus));
        for k in 0..e1.nr {
            let a = e1.r[k];
            if plain(a) && !(a >= pc0 && a < pc0 + 10) && !inp.mem.iter().any(|(x, _)| *x == a) {
                let v = r.value() as u8;
                let _ = cpu.bus.write(a, v);
                inp.mem.push((a, v));
            }
        }
    }
    let exp = isa::step(&st0, &wd, &mut RealMem(&cpu.bus));
    let mut out = Outcome { failed: vec![], applicable: false, after: String::new(), expected: String::new() };
    if exp.kind != isa::Kind::Exec || exp.form != f.oracle || !exp.pre {
        return out;
    }
    out.applicable = true;
    // snapshots for the frame clause
    let ram0 = cpu.bus.memory.clone();
    let vec0 = cpu.bus.exception_handling_vector.clone();
    let io1 = cpu.bus.io_registrs1.clone();
    let io2 = cpu.bus.io_registrs2.clone();
    let mut win: Vec<(u32, u8)> = vec![];
    for k in 0..exp.nw {
        let a = exp.w[k].0;
        for d in 0..24u32 {
            let x = a.wrapping_add(d).wrapping_sub(12);
            if x >= 0x400000 && x <= 0x5fffff {
                win.push((x, cpu.bus.read(x).unwrap()));
            }
        }
    }
    for r in 0..8 {
        let a = st0.er[r] & 0xffffff;
        for d in 0..16u32 {
            let x = a.wrapping_add(d).wrapping_sub(8);
            if x >= 0x400000 && x <= 0x5fffff {
                win.push((x, cpu.bus.read(x).unwrap()));
            }
        }
    }
    cpu.pc = pc0 + 2 * f.pre;
    cpu.operating_pc = pc0;
    let first = ((inp.b0 as u16) << 8) | inp.b1 as u16;
    let res = std::panic::catch_unwind(std::panic::AssertUnwindSafe(|| (f.call)(&mut cpu, first, inp.w[0])));
    let res = match res {
        Ok(r) => r,
        Err(_) => {
            out.failed.push(("panic", "the real handler panicked".to_string()));
            return out;
        }
    };
    out.after = format!("result={:?} er={:x?} ccr={:02x} pc={:x}", res.as_ref().map(|x| *x).map_err(|_| "Err"), cpu.er, cpu.ccr, cpu.pc);
    out.expected = format!("er={:x?} ccr={:02x} (free {:02x}) pc={:x} writes={:x?} all_mapped={}", exp.st.er, exp.st.ccr, exp.free_ccr, exp.st.pc, &exp.w[..exp.nw], exp.all_mapped);
    if !exp.all_mapped {
        if res.is_ok() {
            out.failed.push(("err_on_unmapped", "Ok although an operand byte is unmapped".into()));
        }
        return out;
    }
    let charged = match res {
        Ok(c) => c,
        Err(_) => {
            out.failed.push(("ok", "Err although every operand byte is mapped".into()));
            return out;
        }
    };
    let mut regs_ok = true;
    for k in 0..8 {
        if (cpu.er[k] ^ exp.st.er[k]) & !exp.free_er[k] != 0 {
            regs_ok = false;
        }
    }
    if !regs_ok {
        out.failed.push(("regs", format!("er {:x?} expected {:x?}", cpu.er, exp.st.er)));
    }
    if (cpu.ccr ^ exp.st.ccr) & !exp.free_ccr != 0 {
        out.failed.push(("flags", format!("ccr {:02x} expected {:02x}", cpu.ccr, exp.st.ccr)));
    }
    if cpu.pc != exp.st.pc {
        out.failed.push(("pc", format!("pc {:x} expected {:x}", cpu.pc, exp.st.pc)));
    }
    for k in 0..exp.nw {
        let (a, v, known) = exp.w[k];
        if known && cpu.bus.read(a).unwrap_or(0) != v {
            out.failed.push(("mem_value", format!("[{:x}] = {:02x} expected {:02x}", a, cpu.bus.read(a).unwrap_or(0), v)));
            break;
        }
    }
    let in_w = |a: u32| (0..exp.nw).any(|k| exp.w[k].0 == a);
    let mut frame_bad: Option<u32> = None;
    for (k, b) in ram0.iter().enumerate() {
        let a = 0xffbf20 + k as u32;
        if cpu.bus.memory[k] != *b && !in_w(a) {
            frame_bad = Some(a);
        }
    }
    for (k, b) in vec0.iter().enumerate() {
        if cpu.bus.exception_handling_vector[k] != *b && !in_w(k as u32) {
            frame_bad = Some(k as u32);
        }
    }
    for (k, b) in io1.iter().enumerate() {
        if cpu.bus.io_registrs1[k] != *b && !in_w(0xfee000 + k as u32) {
            frame_bad = Some(0xfee000 + k as u32);
        }
    }
    for (k, b) in io2.iter().enumerate() {
        if cpu.bus.io_registrs2[k] != *b && !in_w(0xffff20 + k as u32) {
            frame_bad = Some(0xffff20 + k as u32);
        }
    }
    for (a, b) in win.iter() {
        if cpu.bus.read(*a).unwrap() != *b && !in_w(*a) {
            frame_bad = Some(*a);
        }
    }
    if let Some(a) = frame_bad {
        out.failed.push(("mem_frame", format!("byte at {:x} changed outside the specified writes", a)));
        out.failed.push(("ea", format!("byte at {:x} changed outside the specified writes", a)));
    }
    // cost: the charge must equal the manual's mix costed by the REAL cost function at the specified addresses
    let mut want: u32 = 0;
    let mut cost_ok = true;
    for k in 0..exp.ncy {
        let (kind, n, addr) = exp.cy[k];
        let t = match kind {
            0 => StateType::I,
            1 => StateType::J,
            2 => StateType::K,
            3 => StateType::L,
            4 => StateType::M,
            _ => StateType::N,
        };
        let a = if kind == isa::K_I { pc0 } else { addr };
        match cpu.calc_state_with_addr(t, 1, a) {
            Ok(u) => want += n as u32 * u as u32,
            Err(_) => cost_ok = false,
        }
    }
    if cost_ok && want != charged as u32 {
        out.failed.push(("cycle_mix", format!("charged {} expected {}", charged, want)));
    }
    out
}

fn gen_input(f: &NForm, r: &mut Rng) -> Input {
    let mut er = [0u32; 8];
    for k in 0..8 {
        er[k] = if r.below(10) < 6 { r.address() } else { r.value() };
        er[k] &= f.regmask;
    }
    let pc = if f.sym_pc {
        match r.below(4) {
            0 => 0xffbf20 + 2 * r.below(0x1ff0),
            1 => 0x400000 + 2 * r.below(0xffff0),
            2 => 0xffff1f - 11 - (r.below(4) * 2 + 1),
            _ => 0xffc100,
        }
    } else {
        0xffc100
    };
    let b0 = f.b0.0 | (r.u32() as u8 & f.b0.1);
    let b1 = f.b1.0 | (r.u32() as u8 & f.b1.1);
    let mut w = [0u16; 4];
    for k in 0..4 {
        let v = if r.below(3) == 0 { r.value() as u16 } else { r.u32() as u16 };
        w[k] = f.w[k].0 | (v & f.w[k].1);
    }
    Input { er, ccr: r.u32() as u8, pc: pc & !1, b0, b1, w, mem: vec![] }
}

#[test]
fn native_search() {
    if let Ok(j) = std::env::var("KOGE29_REPLAY") {
        let (form, clause, mut inp) = from_json(&j);
        let f = NFORMS.iter().find(|f| f.name == form).expect("form");
        println!("REPLAY form={} clause={}", form, clause);
        println!("  before: er={:x?} ccr={:02x} pc={:x} words={:02x}{:02x} {:04x?} mem={:x?}", inp.er, inp.ccr, inp.pc, inp.b0, inp.b1, inp.w, inp.mem);
        let o = evaluate(f, &mut inp, None);
        println!("  real code : {}", o.after);
        println!("  contract  : {}", o.expected);
        for (c, d) in o.failed.iter() {
            println!("  FAILED clause {}: {}", c, d);
        }
        println!("REPLAY-RESULT {}", if o.failed.iter().any(|(c, _)| *c == clause) { "clause-fails" } else if o.failed.is_empty() { "passes" } else { "other-clause-fails" });
        return;
    }
    let form = match std::env::var("KOGE29_FORM") {
        Ok(f) => f,
        Err(_) => return,
    };
    let clause = std::env::var("KOGE29_CLAUSE").unwrap_or_default();
    let seed: u64 = std::env::var("VERIF_SEED").ok().and_then(|s| s.parse().ok()).unwrap_or(0);
    let budget: u128 = std::env::var("KOGE29_BUDGET_MS").ok().and_then(|s| s.parse().ok()).unwrap_or(8000);
    let f = NFORMS.iter().find(|f| f.name == form).expect("form");
    let mut r = Rng(0x9e37_79b9_7f4a_7c15 ^ (seed.wrapping_mul(0x2545_f491_4f6c_dd1d)) | 1);
    let t0 = std::time::Instant::now();
    let mut tried = 0u64;
    std::panic::set_hook(Box::new(|_| {}));
    while t0.elapsed().as_millis() < budget {
        let mut inp = gen_input(f, &mut r);
        let o = evaluate(f, &mut inp, Some(&mut r));
        if !o.applicable {
            continue;
        }
        tried += 1;
        let same = |c: &str| clause == "any" || c == clause || (clause == "address_registers" && c == "regs") || (clause == "charge_is_sum" && c == "cycle_mix") || (clause.starts_with("attempt to") && c == "panic") || (clause == "panic" && c == "panic");
        if let Some((c, d)) = o.failed.iter().find(|(c, _)| same(c)) {
            println!("WITNESS {}", to_json(&form, c, &inp, &format!("{} | real: {} | contract: {}", d, o.after, o.expected)));
            println!("TRIED {}", tried);
            return;
        }
    }
    println!("NO-WITNESS tried={}", tried);
}

// ------------------------------------------------------------------------------------------------
// C10 bounded stand-in on the real code, natively: every sequence of up to 4 events drawn from
// {request v (v in three vectors), instruction boundary with I clear, boundary with I set} ... up to
// length 7, through the REAL request_interrupt / try_interrupt / interrupt on a real Cpu whose vector
// table sends every vector to a distinct address.  BOUNDED exhaustive enumeration, not a proof; it keeps
// the exactly-once clauses decided when the queue code is rewritten into constructs Verus rejects.
#[test]
fn native_c10_bounded() {
    if std::env::var("KOGE29_C10").is_err() {
        return;
    }
    const VECS: [u8; 3] = [1, 36, 63]; // first, a timer vector, last entry of the table
    const LEN: usize = 7;
    let mut fails: Vec<(&'static str, String)> = vec![];
    let mut count = 0u64;
    // events: 0,1,2 = request VECS[e]; 3 = boundary unmasked; 4 = boundary masked
    let total = 5u32.pow(LEN as u32);
    for code in 0..total {
        let mut ev = [0u8; LEN];
        let mut c = code;
        for k in 0..LEN {
            ev[k] = (c % 5) as u8;
            c /= 5;
        }
        let mut cpu = Cpu::new();
        for v in 1..64u32 {
            // vector v -> address 0xffc000 + 4*v (distinct per vector)
            let t = 0x5a00_0000u32 | (0xffc000 + 4 * v);
            for (i, b) in t.to_be_bytes().iter().enumerate() {
                cpu.bus.write(4 * v + i as u32, *b).unwrap();
            }
        }
        cpu.er[7] = 0xffff00;
        cpu.pc = 0xffd000;
        let mut model: std::collections::VecDeque<u8> = Default::default();
        for k in 0..LEN {
            match ev[k] {
                0 | 1 | 2 => {
                    cpu.interrupt_controller.request_interrupt(VECS[ev[k] as usize]);
                    model.push_back(VECS[ev[k] as usize]);
                }
                e => {
                    let masked = e == 4;
                    cpu.ccr = if masked { 0x80 } else { 0x00 };
                    cpu.pc = 0xffd000;
                    cpu.er[7] = 0xffff00;
                    let r = cpu.try_interrupt();
                    if r.is_err() {
                        fails.push(("ok", format!("{:?}", ev)));
                    }
                    if masked || model.is_empty() {
                        if cpu.pc != 0xffd000 {
                            fails.push(("nothing_delivered_while_masked_or_idle", format!("events {:?} step {}", ev, k)));
                        }
                    } else {
                        let v = model.pop_front().unwrap();
                        if cpu.pc != 0xffc000 + 4 * v as u32 {
                            fails.push(("oldest_request_delivered_once_through_its_own_vector", format!("events {:?} step {} pc {:x}", ev, k, cpu.pc)));
                        }
                    }
                }
            }
            let len = cpu.interrupt_controller.vh_len();
            if len != model.len() {
                fails.push(("none_lost_or_duplicated", format!("events {:?} step {} queue {} model {}", ev, k, len, model.len())));
            } else {
                for i in 0..len {
                    if cpu.interrupt_controller.vh_get(i) != model[i] {
                        fails.push(("pending_order_preserved", format!("events {:?} step {}", ev, k)));
                    }
                }
            }
            if fails.len() > 20 {
                break;
            }
        }
        count += 1;
        if fails.len() > 20 {
            break;
        }
    }
    println!("C10-BOUNDED histories={} failures={}", count, fails.len());
    let mut seen = std::collections::BTreeSet::new();
    for (c, d) in fails.iter() {
        if seen.insert(*c) {
            println!("C10-FAIL {} {}", c, d);
        }
    }
}

// ------------------------------------------------------------------------------------------------
// C16 bounded stand-in for the MESSAGE TEXT and time stamps (the Kani harnesses stub send_io_port_value):
// every history of depth 4 over {write DDR, write DR, external input} x covering values, on every port,
// through the REAL Bus::write / write_port with a real channel attached.  Checked after every operation:
// a message is sent iff the driven output (DR & DDR as the registers read) changed, it is exactly
// `ioport:<port hex>:<value hex>:<states>` with the new value and the current state count, other ports'
// registers are untouched.  BOUNDED, natively; not counted as proved.
#[test]
fn native_c16_messages() {
    if std::env::var("KOGE29_C16").is_err() {
        return;
    }
    const VALS: [u8; 4] = [0x00, 0xff, 0x0f, 0xa5];
    const DEPTH: usize = 4;
    let mut fails: Vec<(&'static str, String)> = vec![];
    let mut count = 0u64;
    let cpu0 = Cpu::new();
    let mut bus = cpu0.bus.clone();
    let (tx, rx) = std::sync::mpsc::channel::<String>();
    bus.message_tx = Some(tx);
    for port in 1..=11u32 {
        let total = 12u32.pow(DEPTH as u32);
        for code in 0..total {
            // fresh port state (the rest of the bus is never touched by these operations)
            for k in 0..11 {
                bus.io_registrs1[k] = 0;
                bus.io_registrs2[0xb0 + k] = 0;
                bus.io_port_in[k] = 0;
            }
            let q = if port == 11 { 1 } else { port + 1 };
            let _ = bus.write(0xfee000 + q - 1, 0x3c);
            let _ = bus.write(0xffffd0 + q - 1, 0x5a);
            while rx.try_recv().is_ok() {}
            let other = (bus.io_registrs1[(q - 1) as usize], bus.io_registrs2[(0xb0 + q - 1) as usize], bus.io_port_in[(q - 1) as usize]);
            let mut c = code;
            let mut stamp = 0usize;
            let mut last_stamp = 0usize;
            for step in 0..DEPTH {
                let op = c % 12;
                c /= 12;
                let v = VALS[(op % 4) as usize];
                stamp += 7 * (step + 1);
                bus.cpu_state_sum = stamp;
                let ddr0 = bus.io_registrs1[(port - 1) as usize];
                let dr0 = bus.io_registrs2[(0xb0 + port - 1) as usize];
                let driven0 = dr0 & ddr0;
                match op / 4 {
                    0 => {
                        let _ = bus.write(0xfee000 + port - 1, v);
                    }
                    1 => {
                        let _ = bus.write(0xffffd0 + port - 1, v);
                    }
                    _ => bus.write_port(port as u8, v),
                }
                let ddr1 = bus.io_registrs1[(port - 1) as usize];
                let dr1 = bus.io_registrs2[(0xb0 + port - 1) as usize];
                let driven1 = dr1 & ddr1;
                let msgs: Vec<String> = rx.try_iter().collect();
                let want = format!("ioport:{:x}:{:x}:{}", port, driven1, stamp);
                if driven1 != driven0 && msgs.last() != Some(&want) {
                    fails.push(("output_change_announced_with_exact_text", format!("port {:x} history code {} step {}: messages {:?}, expected last {}", port, code, step, msgs, want)));
                }
                for m in msgs.iter() {
                    let parts: Vec<&str> = m.split(':').collect();
                    let ok = parts.len() == 4 && parts[0] == "ioport" && u32::from_str_radix(parts[1], 16) == Ok(port) && parts[3].parse::<usize>().map(|t| t >= last_stamp && t == stamp).unwrap_or(false);
                    if !ok {
                        fails.push(("message_format_and_non_decreasing_time_stamp", format!("port {:x} code {} step {}: {}", port, code, step, m)));
                    }
                }
                if let Some(m) = msgs.last() {
                    if *m != want {
                        fails.push(("last_announced_value_is_current_output", format!("port {:x} code {} step {}: {} expected {}", port, code, step, m, want)));
                    }
                }
                last_stamp = stamp;
                let now = (bus.io_registrs1[(q - 1) as usize], bus.io_registrs2[(0xb0 + q - 1) as usize], bus.io_port_in[(q - 1) as usize]);
                if now != other {
                    fails.push(("ports_never_influence_each_other", format!("port {:x} code {} step {}", port, code, step)));
                }
                if fails.len() > 20 {
                    break;
                }
            }
            count += 1;
            if fails.len() > 20 {
                break;
            }
        }
    }
    println!("C16-BOUNDED histories={} failures={}", count, fails.len());
    let mut seen = std::collections::BTreeSet::new();
    for (c, d) in fails.iter() {
        if seen.insert(*c) {
            println!("C16-FAIL {} {}", c, d);
        }
    }
}

// ------------------------------------------------------------------------------------------------
// C13 bounded stand-in, natively, through the REAL Cpu::run with the message-capture hook: hand-assembled guest
// programs (counted loops around ADD/MOV, a subroutine call, a port write) sized so that the total crosses 0, 1
// and 2 sync thresholds.  Checked: run returns Ok at the exit address, the k-th `sync:<total>` message carries a
// total in [2,000,000*k, 2,000,000*k+255), their number is total/2,000,000, the bus and the timer saw the same
// total, and a second run of the same program gives the identical state, total and message sequence.
// A failing instruction makes run return Err.  BOUNDED (five programs), not counted as proved.
fn c13_program(cpu: &mut Cpu, outer: u16) -> u32 {
    // at 0x410000 (DRAM):   MOV.W #outer,R1 ; L1: MOV.W #1000,R0 ; L2: ADD.B #1,R2L ; DEC.W #1,R0 ; BNE L2 ;
    //                       BSR sub ; DEC.W #1,R1 ; BNE L1 ; MOV.B R2L,@P1DR ; JMP exit     sub: RTS
    let base = 0x410000u32;
    let code: Vec<u8> = vec![
        0x79, 0x01, (outer >> 8) as u8, outer as u8, // MOV.W #outer,R1
        0x79, 0x00, 0x03, 0xe8, // L1: MOV.W #1000,R0
        0x8a, 0x01, // L2: ADD.B #1,R2L
        0x1b, 0x50, // DEC.W #1,R0
        0x46, 0xfa, // BNE L2 (-6)
        0x55, 0x0a, // BSR sub (+10)
        0x1b, 0x51, // DEC.W #1,R1
        0x46, 0xf0, // BNE L1 (-16)
        0x3a, 0xd0, // MOV.B R2L,@0xffffd0 (P1DR)
        0x5a, 0x41, 0x00, 0x20, // JMP @0x410020 (exit)
        0x54, 0x70, // sub: RTS
    ];
    for (i, b) in code.iter().enumerate() {
        cpu.bus.write(base + i as u32, *b).unwrap();
    }
    cpu.er[2] = base;
    cpu.er[7] = 0xffff00;
    cpu.exit_addr = 0x410020;
    base
}

#[test]
fn native_c13_bounded() {
    if std::env::var("KOGE29_C13").is_err() {
        return;
    }
    *crate::setting::ENABLE_PRINT_OPCODE.write().unwrap() = false;
    let mut fails: Vec<(&'static str, String)> = vec![];
    let mut programs = 0;
    for outer in [1u16, 20, 90, 100, 190] {
        let mut results: Vec<(usize, [u32; 8], u8, Vec<String>, u8)> = vec![];
        for _rep in 0..2 {
            super::MESSAGES.with(|m| m.borrow_mut().clear());
            let mut cpu = Cpu::new();
            c13_program(&mut cpu, outer);
            // timer 0 on /8 so that the peripherals' view of time is observable
            let r = cpu.run();
            if r.is_err() || cpu.pc != cpu.exit_addr {
                fails.push(("runs_to_the_exit_address_and_reports_success", format!("outer={} result ok={} pc={:x}", outer, r.is_ok(), cpu.pc)));
            }
            let msgs: Vec<String> = super::MESSAGES.with(|m| m.borrow().clone());
            let syncs: Vec<usize> = msgs.iter().filter(|m| m.starts_with("sync:")).map(|m| m[5..].parse::<usize>().unwrap_or(usize::MAX)).collect();
            if syncs.len() != cpu.state_sum / 2_000_000 {
                fails.push(("one_sync_per_multiple_of_2000000", format!("outer={} total={} syncs={:?}", outer, cpu.state_sum, syncs)));
            }
            for (k, t) in syncs.iter().enumerate() {
                if !(*t >= 2_000_000 * (k + 1) && *t < 2_000_000 * (k + 1) + 256) {
                    fails.push(("kth_sync_text_carries_the_total_that_passed_the_kth_multiple", format!("outer={} k={} message sync:{}", outer, k, t)));
                }
            }
            if cpu.bus.cpu_state_sum != cpu.state_sum {
                fails.push(("bus_sees_the_same_total", format!("outer={} {} vs {}", outer, cpu.bus.cpu_state_sum, cpu.state_sum)));
            }
            let ioports: Vec<&String> = msgs.iter().filter(|m| m.starts_with("ioport:")).collect();
            let _ = ioports;
            results.push((cpu.state_sum, cpu.er, cpu.ccr, msgs, cpu.bus.read(0x410000).unwrap()));
        }
        if results[0] != results[1] {
            fails.push(("identical_for_every_run_of_the_same_program", format!("outer={} totals {} / {}", outer, results[0].0, results[1].0)));
        }
        programs += 1;
    }
    // a failing instruction stops the run with its error
    {
        let mut cpu = Cpu::new();
        for (i, b) in [0x8au8, 0x01, 0x00, 0x00, 0x8a, 0x01].iter().enumerate() {
            cpu.bus.write(0x410000 + i as u32, *b).unwrap(); // ADD.B ; NOP (unimplemented) ; ADD.B
        }
        cpu.er[2] = 0x410000;
        cpu.exit_addr = 0x410006;
        let r = cpu.run();
        if r.is_ok() || cpu.er[2] & 0xff != 1 {
            fails.push(("failing_instruction_makes_run_return_the_error", format!("ok={} R2L={:x} pc={:x}", r.is_ok(), cpu.er[2] & 0xff, cpu.pc)));
        }
        programs += 1;
    }
    println!("C13-BOUNDED programs={} failures={}", programs, fails.len());
    let mut seen = std::collections::BTreeSet::new();
    for (c, d) in fails.iter() {
        if seen.insert(*c) {
            println!("C13-FAIL {} {}", c, d);
        }
    }
}

// ------------------------------------------------------------------------------------------------
// C14 bounded stand-in for the write call (the Kani harnesses are limited to length <= 4 ASCII): TRAPA #0 with
// ER0=104 through the REAL trapa / trapa_emulate_mes2 / send_stdout_message with the message-capture hook, for
// buffers in on-chip RAM and DRAM (also ending at the last byte of the region), lengths 0,1,2,3,31,32,33,40,255,4096,
// contents: ASCII, NUL/newline/backslash, 2-, 3- and 4-byte UTF-8 characters at every alignment relative to
// offsets 31..33.  Checked: Ok, exactly one `stdout:` message whose payload is byte-exact, registers/CCR/PC/memory
// unchanged.  BOUNDED, natively; not counted as proved.
#[test]
fn native_c14_bounded() {
    if std::env::var("KOGE29_C14").is_err() {
        return;
    }
    *crate::setting::ENABLE_PRINT_OPCODE.write().unwrap() = false;
    let mut fails: Vec<(&'static str, String)> = vec![];
    let mut cases = 0u32;
    let units: [&str; 7] = ["a", "\0", "\n", "\\", "\u{e9}", "\u{3042}", "\u{1f600}"];
    for &len_target in [0usize, 1, 2, 3, 31, 32, 33, 40, 255, 4096].iter() {
        for (ui, unit) in units.iter().enumerate() {
            for shift in 0..4usize {
                // `shift` ASCII bytes, then the unit repeated, padded with ASCII to the target length
                let mut s = String::new();
                for _ in 0..shift.min(len_target) {
                    s.push('x');
                }
                while s.len() + unit.len() <= len_target {
                    s.push_str(unit);
                }
                while s.len() < len_target {
                    s.push('y');
                }
                let bytes = s.as_bytes();
                for &buf in [0xffc400u32, 0x450000, 0x5fffff + 1 - bytes.len().max(1) as u32, 0xffff1f + 1 - bytes.len().max(1) as u32].iter() {
                    if bytes.len() > 0x3000 && buf >= 0xffbf20 {
                        continue;
                    }
                    let mut cpu = Cpu::new();
                    for (i, b) in bytes.iter().enumerate() {
                        cpu.bus.write(buf + i as u32, *b).unwrap();
                    }
                    let argp = 0xffc200u32;
                    let mut put32 = |cpu: &mut Cpu, a: u32, v: u32| {
                        for (i, b) in v.to_be_bytes().iter().enumerate() {
                            cpu.bus.write(a + i as u32, *b).unwrap();
                        }
                    };
                    put32(&mut cpu, argp, 1);
                    put32(&mut cpu, argp + 4, buf);
                    put32(&mut cpu, argp + 8, bytes.len() as u32);
                    cpu.er = [104, argp, 0x11111111, 0x22222222, 0x33333333, 0x44444444, 0x55555555, 0xffff00];
                    cpu.ccr = 0xa5;
                    cpu.pc = 0xffc102;
                    cpu.operating_pc = 0xffc100;
                    let er0 = cpu.er;
                    let ram0 = cpu.bus.memory.clone();
                    super::MESSAGES.with(|m| m.borrow_mut().clear());
                    let desc = format!("length {} unit #{} shift {} buffer {:x}", bytes.len(), ui, shift, buf);
                    let r = std::panic::catch_unwind(std::panic::AssertUnwindSafe(|| cpu.trapa(0x5700)));
                    cases += 1;
                    match r {
                        Err(_) => {
                            fails.push(("no_panic", desc.clone()));
                            continue;
                        }
                        Ok(Err(_)) => {
                            fails.push(("ok", desc.clone()));
                            continue;
                        }
                        Ok(Ok(_)) => {}
                    }
                    let msgs: Vec<String> = super::MESSAGES.with(|m| m.borrow().clone());
                    let outs: Vec<&String> = msgs.iter().filter(|m| m.starts_with("stdout:")).collect();
                    if outs.len() != 1 {
                        fails.push(("exactly_one_stdout_message", format!("{}: {} messages", desc, outs.len())));
                    } else if outs[0].as_bytes()[7..] != *bytes {
                        fails.push(("payload_is_exactly_the_length_bytes_at_buffer_in_order", desc.clone()));
                    }
                    if cpu.er != er0 || cpu.ccr != 0xa5 || cpu.pc != 0xffc102 {
                        fails.push(("registers_sp_ccr_pc_unchanged", desc.clone()));
                    }
                    if cpu.bus.memory[..] != ram0[..] {
                        fails.push(("memory_unchanged", desc.clone()));
                    }
                    if fails.len() > 30 {
                        break;
                    }
                }
            }
        }
    }
    println!("\nC14-BOUNDED cases={} failures={}", cases, fails.len());
    let mut seen = std::collections::BTreeSet::new();
    for (c, d) in fails.iter() {
        if seen.insert(*c) {
            println!("C14-FAIL {} {}", c, d);
        }
    }
}

// ------------------------------------------------------------------------------------------------
// C09 bounded stand-in, natively, on the REAL Bus::read / Bus::write (with the peripheral link of a real Cpu):
// classification of all 2^24 addresses and a sample above; every plain storage location (everything accessible
// except the port DDR/DR registers) filled with an address-dependent pattern and read back AFTER all the other
// locations were filled (any aliasing between two locations with different patterns shows); then a second write
// with the complemented pattern, read back, with 26 neighbours (a +/- 1, a ^ 2^k) unchanged.  The Verus unit
// `bus` proves the same for all values and histories; this enumeration keeps a violation visible when a source
// change takes the extraction out of the unit's reach.  Fixed value patterns -> BOUNDED, not counted as proved.
#[test]
fn native_c09_bounded() {
    if std::env::var("KOGE29_C09").is_err() {
        return;
    }
    let is_port = |a: u32| (0xfee000..=0xfee00a).contains(&a) || (0xffffd0..=0xffffda).contains(&a);
    let pat = |a: u32| -> u8 { ((a.wrapping_mul(167).wrapping_add(13)) ^ (a >> 8) ^ (a >> 15) ^ (a >> 21)) as u8 };
    let cpu0 = Cpu::new();
    let mut bus = cpu0.bus.clone();
    let mut fails: Vec<(&'static str, String)> = vec![];
    let mut fail = |c: &'static str, d: String, fails: &mut Vec<(&'static str, String)>| {
        if fails.iter().filter(|f| f.0 == c).count() < 3 {
            fails.push((c, d));
        }
    };
    let above: [u32; 9] = [0x0100_0000, 0x0100_0001, 0x0140_0000, 0x01ff_bf20, 0x4040_0000, 0x8000_0000, 0xff00_0000, 0xffff_ff20, 0xffff_ffff];
    let mut mapped_n = 0u64;
    let mut count = 0u64;
    // pass 1: classification (reads everywhere, writes to unmapped addresses on a sample and around every boundary)
    for a in (0u32..0x0100_0000).chain(above.iter().copied()) {
        let m = isa::mapped(a);
        count += 1;
        if bus.read(a).is_ok() != m {
            fail("accessible_iff_in_the_five_regions", format!("read at {:#x}: is_ok={} expected {}", a, !m, m), &mut fails);
        }
        if m {
            mapped_n += 1;
        } else {
            let near = [0x100u32, 0x400000, 0x600000, 0xfee000, 0xfee100, 0xffbf20, 0xffffea, 0x1000000].iter().any(|b| a as u64 + 8 >= *b as u64 && a as u64 <= *b as u64 + 8);
            if (near || a % 251 == 0 || a >= 0x0100_0000) && bus.write(a, 0xa5).is_ok() {
                fail("unmapped_write_fails", format!("write at {:#x} reported success", a), &mut fails);
            }
        }
    }
    // pass 2: fill every plain storage location, then read all of them back
    let storage: Vec<u32> = (0u32..0x0100_0000).filter(|a| isa::mapped(*a) && !is_port(*a)).collect();
    for &a in storage.iter() {
        if bus.write(a, pat(a)).is_err() {
            fail("accessible_iff_in_the_five_regions", format!("write at {:#x} failed", a), &mut fails);
        }
    }
    for &a in storage.iter() {
        let got = bus.read(a).unwrap_or(0);
        if got != pat(a) {
            fail("written_byte_is_read_back_after_all_other_writes", format!("at {:#x}: read {:#x}, written {:#x}", a, got, pat(a)), &mut fails);
        }
    }
    // pass 3: one more write per location, neighbours unchanged
    for &a in storage.iter() {
        let mut nb: Vec<u32> = vec![a.wrapping_sub(1), a.wrapping_add(1)];
        for k in 0..24 {
            nb.push(a ^ (1u32 << k));
        }
        let before: Vec<Option<u8>> = nb.iter().map(|&b| bus.read(b).ok()).collect();
        let v = !pat(a);
        let _ = bus.write(a, v);
        if bus.read(a).ok() != Some(v) {
            fail("written_byte_is_read_back", format!("at {:#x}: wrote {:#x}, read {:?}", a, v, bus.read(a).ok()), &mut fails);
        }
        for (i, &b) in nb.iter().enumerate() {
            if is_port(b) {
                continue;
            }
            let now = bus.read(b).ok();
            if now != before[i] {
                fail("no_other_location_changes", format!("write at {:#x} changed {:#x} from {:?} to {:?}", a, b, before[i], now), &mut fails);
            }
        }
        let _ = bus.write(a, pat(a));
        count += 1;
    }
    // the port registers are accessible too (their values are C16's subject)
    println!("C09-BOUNDED addresses={} mapped={} failures={}", count, mapped_n, fails.len());
    let mut seen = std::collections::BTreeSet::new();
    for (c, d) in fails.iter() {
        if seen.insert(*c) {
            println!("C09-FAIL {} {}", c, d);
        }
    }
}
