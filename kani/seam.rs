// Seam contracts used as Kani stubs (module crate::cpu::verif_hooks::seam, cfg(kani) only).
//
//  bus seam   Bus::read / Bus::write          contract of property C09 (plain storage):
//             unmapped address -> Err, nothing changes; read returns the current byte;
//             write changes exactly that byte.  The stub keeps memory as a sparse map:
//             `init` = value every touched address had BEFORE the step (fresh symbolic byte on first
//             touch => memory contents are universally quantified), `wr` = ordered write log.
//  cost seam  Cpu::calc_state_with_addr        contract of property C19: returns count x unit(kind, area(addr)),
//             internal cycles cost 1, unit in 1..=14; logs (kind,count,addr,returned).
//  msg seam   Cpu::send_message / Bus::send_message / Bus::send_io_port_value : count only, Ok.
//
// The real bodies are verified against these contracts in their own units (C09/C16: Verus+Kani, C19: Kani).

use super::isa;
use super::super::{Cpu, StateType};
use crate::bus::Bus;

pub const N_INIT: usize = 18;
pub const N_CODE: usize = 10;
pub const N_WR: usize = 8;
pub const N_RD: usize = 24;
pub const N_CY: usize = 6;

pub struct Seam {
    /// the instruction bytes live in their own array (base = address of the instruction)
    pub code_base: u32,
    pub code: [u8; N_CODE],
    pub ni: usize,
    pub init: [(u32, u8); N_INIT],
    pub nw: usize,
    pub wr: [(u32, u8); N_WR],
    pub nr: usize,
    pub rd: [u32; N_RD],
    pub ncy: usize,
    pub cy: [(u8, u8, u32, u8); N_CY],
    pub overflow: bool,
    pub unmapped: bool,
    pub msgs: u32,
    pub ioport_msgs: u32,
    pub last_port: u8,
    pub last_port_value: u8,
    pub stdout_msgs: u32,
    pub stdout_len: usize,
    pub stdout_bytes: [u8; 4],
}

pub static mut SEAM: Seam = Seam {
    code_base: 0xffff_0000,
    code: [0; N_CODE],
    ni: 0,
    init: [(0, 0); N_INIT],
    nw: 0,
    wr: [(0, 0); N_WR],
    nr: 0,
    rd: [0; N_RD],
    ncy: 0,
    cy: [(0, 0, 0, 0); N_CY],
    overflow: false,
    unmapped: false,
    msgs: 0,
    ioport_msgs: 0,
    last_port: 0,
    last_port_value: 0,
    stdout_msgs: 0,
    stdout_len: 0,
    stdout_bytes: [0; 4],
};

pub fn seam() -> &'static mut Seam {
    unsafe { &mut *core::ptr::addr_of_mut!(SEAM) }
}

impl Seam {
    /// value of `a` before the step (allocates a fresh symbolic byte on first touch)
    pub fn init_val(&mut self, a: u32) -> u8 {
        let off = a.wrapping_sub(self.code_base);
        if off < N_CODE as u32 {
            return self.code[off as usize];
        }
        let mut found = false;
        let mut v: u8 = 0;
        let mut i = 0;
        while i < N_INIT {
            if i < self.ni && self.init[i].0 == a {
                found = true;
                v = self.init[i].1;
            }
            i += 1;
        }
        if found {
            return v;
        }
        let fresh: u8 = kani::any();
        if self.ni < N_INIT {
            self.init[self.ni] = (a, fresh);
            self.ni += 1;
        } else {
            self.overflow = true;
        }
        fresh
    }
    /// pre-load a known initial byte
    pub fn seed(&mut self, a: u32, v: u8) {
        if self.ni < N_INIT {
            self.init[self.ni] = (a, v);
            self.ni += 1;
        } else {
            self.overflow = true;
        }
    }
    /// place the instruction bytes
    pub fn set_code(&mut self, base: u32, bytes: [u8; N_CODE]) {
        self.code_base = base;
        self.code = bytes;
    }
    /// current value of `a`: last write wins, else the initial value
    pub fn current(&mut self, a: u32) -> u8 {
        let mut v = self.init_val(a);
        let mut i = 0;
        while i < N_WR {
            if i < self.nw && self.wr[i].0 == a {
                v = self.wr[i].1;
            }
            i += 1;
        }
        v
    }
    pub fn written(&self, a: u32) -> bool {
        let mut hit = false;
        let mut i = 0;
        while i < N_WR {
            if i < self.nw && self.wr[i].0 == a {
                hit = true;
            }
            i += 1;
        }
        hit
    }
}

pub struct InitView;
impl isa::Mem for InitView {
    fn rd(&mut self, a: u32) -> u8 {
        seam().init_val(a)
    }
}

pub fn bus_read(_b: &Bus, addr: u32) -> anyhow::Result<u8> {
    let s = seam();
    if s.nr < N_RD {
        s.rd[s.nr] = addr;
        s.nr += 1;
    } else {
        s.overflow = true;
    }
    if !isa::mapped(addr) {
        s.unmapped = true;
        return Err(anyhow::anyhow!("unmapped"));
    }
    Ok(s.current(addr))
}

pub fn bus_write(_b: &mut Bus, addr: u32, value: u8) -> anyhow::Result<()> {
    let s = seam();
    if !isa::mapped(addr) {
        s.unmapped = true;
        return Err(anyhow::anyhow!("unmapped"));
    }
    // make sure the pre-state value exists before the write is logged
    let _ = s.init_val(addr);
    if s.nw < N_WR {
        s.wr[s.nw] = (addr, value);
        s.nw += 1;
    } else {
        s.overflow = true;
    }
    Ok(())
}

pub fn kind_of(t: &StateType) -> u8 {
    match t {
        StateType::I => isa::K_I,
        StateType::J => isa::K_J,
        StateType::K => isa::K_K,
        StateType::L => isa::K_L,
        StateType::M => isa::K_M,
        StateType::N => isa::K_N,
    }
}

pub fn cost(_c: &Cpu, t: StateType, n: u8, addr: u32) -> anyhow::Result<u8> {
    let s = seam();
    let k = kind_of(&t);
    let unit: u8 = if k == isa::K_N {
        1
    } else {
        let u: u8 = kani::any();
        kani::assume(u >= 1 && u <= 14);
        u
    };
    let ret = n.wrapping_mul(unit);
    if s.ncy < N_CY {
        s.cy[s.ncy] = (k, n, addr, ret);
        s.ncy += 1;
    } else {
        s.overflow = true;
    }
    Ok(ret)
}

pub fn cpu_send_message(_c: &mut Cpu, _m: &String) -> anyhow::Result<()> {
    seam().msgs += 1;
    Ok(())
}
pub fn bus_send_message(_b: &mut Bus, _m: &String) -> anyhow::Result<()> {
    seam().msgs += 1;
    Ok(())
}
pub fn bus_send_io_port_value(_b: &mut Bus, port: u8, value: u8) -> anyhow::Result<()> {
    let s = seam();
    s.ioport_msgs += 1;
    s.last_port = port;
    s.last_port_value = value;
    Ok(())
}

/// TRAPA #0 (MES system call) is specified separately (C14); in the instruction harnesses it is an
/// abstract call that is counted as a message so that reaching it breaks the `no_message` clause.
pub fn mes_call(_c: &mut Cpu) -> anyhow::Result<()> {
    seam().msgs += 1;
    Ok(())
}

/// message seam for `stdout:<text>`: records the payload instead of formatting it
pub fn cpu_send_stdout_message(_c: &mut Cpu, string: &String) -> anyhow::Result<()> {
    let s = seam();
    s.stdout_msgs += 1;
    let b = string.as_bytes();
    s.stdout_len = b.len();
    let mut i = 0;
    while i < 4 {
        if i < b.len() {
            s.stdout_bytes[i] = b[i];
        }
        i += 1;
    }
    Ok(())
}

/// used where a path that would call read_abs24_b must be infeasible: any call is made visible
pub fn forbidden_read_b(_c: &Cpu, _addr: u32) -> anyhow::Result<u8> {
    seam().msgs += 1000;
    Err(anyhow::anyhow!("forbidden"))
}

/// std model used only by the bounded C14 write harnesses: UTF-8 validation is the identity on the
/// ASCII payloads those harnesses quantify over (the validation loops of core::str do not unwind in CBMC)
pub fn from_utf8_ascii(v: Vec<u8>) -> Result<String, std::string::FromUtf8Error> {
    Ok(unsafe { String::from_utf8_unchecked(v) })
}
