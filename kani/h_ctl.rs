// C05/C06 composition lemmas and interrupt entry (module crate::cpu::verif_hooks::kctl, cfg(kani)).
//
//  * interrupt(v): the real exception entry against isa::exception_entry for every vector 1..63
//  * call ; RTS  and  entry ; RTE : executing the real return after the real call/entry on the memory
//    the call wrote resumes right after the call with SP, CCR and every register as before
//    (the one-level lemma; arbitrary nesting follows by induction on depth using the frame clauses
//    `mem_frame` of the single-step contracts - DESIGN.md 5.5)

use super::isa;
use super::kstep::*;
use super::seam::{self, seam};
use super::super::*;
use crate::bus::Bus;

fn any_code() -> [u8; seam::N_CODE] {
    let mut c = [0u8; seam::N_CODE];
    let mut i = 0;
    while i < seam::N_CODE {
        c[i] = kani::any();
        i += 1;
    }
    c
}

fn stack_in_ram(sp: u32) -> bool {
    let f = sp.wrapping_sub(4) & isa::ADDR_MASK;
    (f >= 0xffbf20 && f <= 0xffff1f - 3) || (f >= 0x400000 && f <= 0x5fffff - 3)
}

#[kani::proof]
#[kani::stub(Bus::read, seam::bus_read)]
#[kani::stub(Bus::write, seam::bus_write)]
#[kani::stub(Cpu::calc_state_with_addr, seam::cost)]
fn c06_interrupt_entry() {
    let mut cpu = new_cpu();
    let pc: u32 = any_code_pc();
    cpu.pc = pc;
    let v: u8 = kani::any();
    kani::assume(v >= 1 && v <= 63);
    let st0 = isa::St { er: cpu.er, ccr: cpu.ccr, pc };
    let mut exp = isa::Exp::new(&st0);
    let r = cpu.interrupt(v);
    isa::exception_entry(&mut exp, &mut seam::InitView, v as u32, pc);
    kani::assume(exp.pre);
    assert!(!seam().overflow, "OBL:SELF/interrupt/log_capacity");
    kani::cover!(exp.all_mapped, "COVER:mapped");
    if exp.all_mapped {
        assert!(r.is_ok(), "OBL:C06/interrupt/ok");
        assert!(cpu.er == exp.st.er, "OBL:C06/interrupt/regs_sp_minus_4");
        assert!((cpu.ccr ^ exp.st.ccr) & !exp.free_ccr == 0, "OBL:C06/interrupt/sets_I_only");
        assert!(cpu.pc == exp.st.pc, "OBL:C06/interrupt/pc_from_low24_of_vector");
        assert!(writes_done(&exp), "OBL:C06/interrupt/frame_ccr_and_return_address");
        assert!(writes_in_frame(&exp), "OBL:C06/interrupt/writes_only_the_frame");
        assert!(reads_in_frame(&exp, 0xffff_fff0), "OBL:C08/interrupt/vector_address_is_4_times_number");
    } else {
        assert!(r.is_err(), "OBL:C15/interrupt/err_on_unmapped");
    }
    kani::cover!(true, "REACH:end");
}

/// which call form: 0 BSR d:8, 1 BSR d:16, 2 JSR @ERn, 3 JSR @aa:24, 4 JSR @@aa:8
fn do_call(cpu: &mut Cpu, form: u8, lo: u8) -> (anyhow::Result<u8>, u32) {
    match form {
        0 => (cpu.bsr_disp16(0x5500 | lo as u16), 2),
        1 => (cpu.bsr_disp24(0x5c00), 4),
        2 => (cpu.jsr(0x5d00 | (lo & 0x70) as u16), 2),
        3 => (cpu.jsr(0x5e00 | lo as u16), 4),
        _ => (cpu.jsr(0x5f00 | lo as u16), 2),
    }
}

#[kani::proof]
#[kani::stub(Bus::read, seam::bus_read)]
#[kani::stub(Bus::write, seam::bus_write)]
#[kani::stub(Cpu::calc_state_with_addr, seam::cost)]
fn c05_call_then_rts_resumes() {
    let mut cpu = new_cpu();
    let pc0 = any_code_pc();
    let form: u8 = kani::any();
    kani::assume(form < 5);
    let lo: u8 = kani::any();
    kani::assume(form != 2 || lo & 0x70 != 0x70); // JSR @ER7 excluded (unspecified)
    kani::assume(stack_in_ram(cpu.er[7]));
    // the dispatcher has fetched the first word
    seam().set_code(pc0, any_code());
    cpu.pc = pc0 + 2;
    cpu.operating_pc = pc0;
    let er0 = cpu.er;
    let ccr0 = cpu.ccr;
    let (r, len) = do_call(&mut cpu, form, lo);
    kani::assume(r.is_ok());
    let sp_in = cpu.er[7];
    let r2 = cpu.rts();
    kani::assume(r2.is_ok());
    assert!(cpu.pc == (pc0 + len) & isa::ADDR_MASK, "OBL:C05/call_rts/resumes_right_after_the_call");
    assert!(cpu.er[7] == er0[7] && sp_in == er0[7].wrapping_sub(4), "OBL:C05/call_rts/sp_restored");
    assert!(cpu.er == er0, "OBL:C05/call_rts/registers_unchanged");
    assert!(cpu.ccr == ccr0, "OBL:C05/call_rts/flags_unchanged");
    kani::cover!(form == 4, "COVER:jsr_indirect");
    kani::cover!(form == 0, "COVER:bsr8");
    kani::cover!(true, "REACH:end");
}

#[kani::proof]
#[kani::stub(Bus::read, seam::bus_read)]
#[kani::stub(Bus::write, seam::bus_write)]
#[kani::stub(Cpu::calc_state_with_addr, seam::cost)]
#[kani::stub(Cpu::trapa_emulate_mes2, seam::mes_call)]
fn c06_entry_then_rte_resumes() {
    let mut cpu = new_cpu();
    let pc0 = any_code_pc();
    kani::assume(stack_in_ram(cpu.er[7]));
    let via_trap: bool = kani::any();
    let er0 = cpu.er;
    let ccr0 = cpu.ccr;
    let resume;
    if via_trap {
        let n: u8 = kani::any();
        kani::assume(n >= 1 && n <= 3);
        cpu.pc = pc0 + 2;
        cpu.operating_pc = pc0;
        resume = pc0 + 2;
        let r = cpu.trapa(0x5700 | ((n as u16) << 4));
        kani::assume(r.is_ok());
    } else {
        let v: u8 = kani::any();
        kani::assume(v >= 1 && v <= 63);
        cpu.pc = pc0;
        resume = pc0;
        let r = cpu.interrupt(v);
        kani::assume(r.is_ok());
    }
    assert!(cpu.ccr & 0x80 != 0, "OBL:C06/entry_rte/handler_runs_with_I_set");
    let r2 = cpu.rte();
    kani::assume(r2.is_ok());
    assert!(cpu.pc == resume & isa::ADDR_MASK, "OBL:C06/entry_rte/resumes_interrupted_program");
    assert!(cpu.ccr == ccr0, "OBL:C06/entry_rte/ccr_restored");
    assert!(cpu.er == er0, "OBL:C06/entry_rte/sp_and_registers_restored");
    // memory outside the frame: every write went to [SP-4, SP)
    let f = er0[7].wrapping_sub(4) & isa::ADDR_MASK;
    let s = seam();
    let mut ok = true;
    let mut i = 0;
    while i < seam::N_WR {
        if i < s.nw && !(s.wr[i].0 >= f && s.wr[i].0 < f + 4) {
            ok = false;
        }
        i += 1;
    }
    assert!(ok, "OBL:C06/entry_rte/memory_outside_frame_unchanged");
    kani::cover!(via_trap, "COVER:trap");
    kani::cover!(!via_trap, "COVER:interrupt");
    kani::cover!(true, "REACH:end");
}
