#!/usr/bin/env python3
"""Generates kani/forms_gen.rs (one contract harness body per instruction form + proof groups)
and lib/forms.json (registry: which obligations every run must report, per property).

A form line:  (FORM, home property, pc mode, b0 (v,m), b1 (v,m), [w0..w3 (v,m)], words prefetched by
               the dispatcher, assume-expression over (b1, w), call of the REAL entry function)
"""
import json, os, sys

A = (0, 0xffff)
F = []  # forms


def form(name, prop, call, b0, b1, w=(), pre=1, pc="fixed", assume="true", group=None, oracle=None, regmask=0xffffffff, relax=False, tier="quick", bounded=None):
    ws = list(w) + [A] * (4 - len(w))
    F.append(dict(name=name, prop=prop, call=call, b0=b0, b1=b1, w=ws, pre=pre, pc=pc, assume=assume, group=group or prop,
                  oracle=oracle or name, regmask=regmask, relax=relax, tier=tier, bounded=bounded))


def c(v):  # concrete byte
    return (v, 0)


ANY8 = (0, 0xff)

# ---------------------------------------------------------------- C02 arithmetic
P = "C02"
form("ADD_B_IMM", P, "cpu.add_b(op)", (0x80, 0x0f), ANY8)
form("ADD_B_RR", P, "cpu.add_b(op)", c(0x08), ANY8)
form("ADD_W_IMM", P, "cpu.add_w(op)", c(0x79), (0x10, 0x0f))
form("ADD_W_RR", P, "cpu.add_w(op)", c(0x09), ANY8)
form("ADD_L_IMM", P, "cpu.add_l(op)", c(0x7a), (0x10, 0x07))
form("ADD_L_RR", P, "cpu.add_l(op)", c(0x0a), (0x80, 0x77))
form("SUB_B_RR", P, "cpu.sub_b(op)", c(0x18), ANY8)
form("SUB_W_IMM", P, "cpu.sub_w(op)", c(0x79), (0x30, 0x0f))
form("SUB_W_RR", P, "cpu.sub_w(op)", c(0x19), ANY8)
form("SUB_L_IMM", P, "cpu.sub_l(op)", c(0x7a), (0x30, 0x07))
form("SUB_L_RR", P, "cpu.sub_l(op)", c(0x1a), (0x80, 0x77))
form("CMP_B_IMM", P, "cpu.cmp_b_imm(op)", (0xa0, 0x0f), ANY8)
form("CMP_B_RR", P, "cpu.cmp_b_rn(op)", c(0x1c), ANY8)
form("CMP_W_IMM", P, "cpu.cmp_w_imm(op)", c(0x79), (0x20, 0x0f))
form("CMP_W_RR", P, "cpu.cmp_w_rn(op)", c(0x1d), ANY8)
form("CMP_L_IMM", P, "cpu.cmp_l_imm(op)", c(0x7a), (0x20, 0x07))
form("CMP_L_RR", P, "cpu.cmp_l_rn(op)", c(0x1f), (0x80, 0x77))
form("ADDX_IMM", P, "cpu.addx_imm(op)", (0x90, 0x0f), ANY8)
form("ADDX_RR", P, "cpu.addx_rn(op)", c(0x0e), ANY8)
form("NEG_B", P, "cpu.neg_b(op)", c(0x17), (0x80, 0x0f))
form("NEG_W", P, "cpu.neg_w(op)", c(0x17), (0x90, 0x0f))
form("NEG_L", P, "cpu.neg_l(op)", c(0x17), (0xb0, 0x07))
form("INC_B", P, "cpu.inc_b(op)", c(0x0a), (0x00, 0x0f))
form("INC_W_1", P, "cpu.inc_w_1(op)", c(0x0b), (0x50, 0x0f))
form("INC_W_2", P, "cpu.inc_w_2(op)", c(0x0b), (0xd0, 0x0f))
form("INC_L_1", P, "cpu.inc_l_1(op)", c(0x0b), (0x70, 0x07))
form("INC_L_2", P, "cpu.inc_l_2(op)", c(0x0b), (0xf0, 0x07))
form("DEC_B", P, "cpu.dec_b(op)", c(0x1a), (0x00, 0x0f))
form("DEC_W_1", P, "cpu.dec_w_1(op)", c(0x1b), (0x50, 0x0f))
form("DEC_W_2", P, "cpu.dec_w_2(op)", c(0x1b), (0xd0, 0x0f))
form("DEC_L_1", P, "cpu.dec_l_1(op)", c(0x1b), (0x70, 0x07))
form("DEC_L_2", P, "cpu.dec_l_2(op)", c(0x1b), (0xf0, 0x07))
form("ADDS_1", P, "cpu.adds1(op)", c(0x0b), (0x00, 0x07))
form("ADDS_2", P, "cpu.adds2(op)", c(0x0b), (0x80, 0x07))
form("ADDS_4", P, "cpu.adds4(op)", c(0x0b), (0x90, 0x07))
form("SUBS_1", P, "cpu.subs1(op)", c(0x1b), (0x00, 0x07))
form("SUBS_2", P, "cpu.subs2(op)", c(0x1b), (0x80, 0x07))
form("SUBS_4", P, "cpu.subs4(op)", c(0x1b), (0x90, 0x07))
form("MULXU_B", P, "cpu.mulxu_b(op)", c(0x50), ANY8, group="C02mb")
form("MULXU_W", P, "cpu.mulxu_w(op)", c(0x52), (0x00, 0xf7), group="C02mw")
# DIVXU: proving two independent divider circuits equal is expensive for SAT (16/8: ~8 min) or out of reach (32/16).
#   *_STRUCT  full domain, quotient/remainder lanes left open by the oracle: flags, other registers, PC, cost   (quick)
#   value of the destination for ALL operands: Verus unit `div` on the extracted divxu_b/divxu_w           (quick)
#   DIVXU_B   full domain, full value check by CBMC as well                                                (thorough)
form("DIVXU_B", P, "cpu.divxu_b(op)", c(0x51), ANY8, group="C02db", tier="thorough")
form("DIVXU_B_STRUCT", P, "cpu.divxu_b(op)", c(0x51), ANY8, group="C02dq", oracle="DIVXU_B", relax=True)
form("DIVXU_W_STRUCT", P, "cpu.divxu_w(op)", c(0x53), (0x00, 0xf7), group="C02dq", oracle="DIVXU_W", relax=True)

# ---------------------------------------------------------------- C03 logic / shift / rotate
P = "C03"
for nm, hb, rb, wi, wr, li, lw in (("AND", 0xe0, 0x16, 0x60, 0x66, 0x60, 0x6600), ("OR", 0xc0, 0x14, 0x40, 0x64, 0x40, 0x6400), ("XOR", 0xd0, 0x15, 0x50, 0x65, 0x50, 0x6500)):
    l = nm.lower()
    form(f"{nm}_B_IMM", P, f"cpu.{l}_b_imm(op)", (hb, 0x0f), ANY8)
    form(f"{nm}_B_RR", P, f"cpu.{l}_b_rn(op)", c(rb), ANY8)
    form(f"{nm}_W_IMM", P, f"cpu.{l}_w_imm(op)", c(0x79), (wi, 0x0f))
    form(f"{nm}_W_RR", P, f"cpu.{l}_w_rn(op)", c(wr), ANY8)
    form(f"{nm}_L_IMM", P, f"cpu.{l}_l_imm(op)", c(0x7a), (li, 0x07))
    form(f"{nm}_L_RR", P, f"cpu.{l}_l_rn(op, op2)", c(0x01), c(0xf0), [(lw, 0x0077)], pre=2)
form("NOT_B", P, "cpu.not_b(op)", c(0x17), (0x00, 0x0f))
form("NOT_W", P, "cpu.not_w(op)", c(0x17), (0x10, 0x0f))
form("NOT_L", P, "cpu.not_l(op)", c(0x17), (0x30, 0x07))
form("EXTU_W", P, "cpu.extu_w(op)", c(0x17), (0x50, 0x0f))
form("EXTU_L", P, "cpu.extu_l(op)", c(0x17), (0x70, 0x07))
for b0, first, second in ((0x10, "SHLL", "SHAL"), (0x11, "SHLR", "SHAR"), (0x12, "ROTXL", "ROTL"), (0x13, "ROTXR", "ROTR")):
    for nm, off in ((first, 0x00), (second, 0x80)):
        l = nm.lower()
        form(f"{nm}_B", P, f"cpu.{l}_b(op)", c(b0), (off | 0x00, 0x0f), group="C03s")
        form(f"{nm}_W", P, f"cpu.{l}_w(op)", c(b0), (off | 0x10, 0x0f), group="C03s")
        form(f"{nm}_L", P, f"cpu.{l}_l(op)", c(b0), (off | 0x30, 0x07), group="C03s")

# ---------------------------------------------------------------- C04 bit manipulation
P = "C04"
# (name, opcode byte for #imm form, opcode byte for Rn form)  -- modifying ops with both bit-number sources
for nm, bi, br in (("BSET", 0x70, 0x60), ("BNOT", 0x71, 0x61), ("BCLR", 0x72, 0x62)):
    l = nm.lower()
    form(f"{nm}_IMM_R", P, f"cpu.{l}_rn_from_imm(op)", c(bi), (0x00, 0x7f), group="C04r")
    form(f"{nm}_RN_R", P, f"cpu.{l}_rn_from_rn(op)", c(br), ANY8, group="C04r")
    form(f"{nm}_IMM_ERN", P, f"cpu.{l}_ern(op, op2)", c(0x7d), (0x00, 0x70), [(bi << 8, 0x0070)], pre=2, group="C04m")
    form(f"{nm}_RN_ERN", P, f"cpu.{l}_ern(op, op2)", c(0x7d), (0x00, 0x70), [(br << 8, 0x00f0)], pre=2, group="C04m")
    form(f"{nm}_IMM_A8", P, f"cpu.{l}_abs(op, op2)", c(0x7f), ANY8, [(bi << 8, 0x0070)], pre=2, group="C04m")
    form(f"{nm}_RN_A8", P, f"cpu.{l}_abs(op, op2)", c(0x7f), ANY8, [(br << 8, 0x00f0)], pre=2, group="C04m")
form("BTST_IMM_R", P, "cpu.btst_imm_rn(op)", c(0x73), (0x00, 0x7f), group="C04r")
form("BTST_RN_R", P, "cpu.btst_rn_rn(op)", c(0x63), ANY8, group="C04r")
form("BTST_IMM_ERN", P, "cpu.btst_imm_ern(op, op2)", c(0x7c), (0x00, 0x70), [(0x7300, 0x0070)], pre=2, group="C04m")
form("BTST_RN_ERN", P, "cpu.btst_rn_ern(op, op2)", c(0x7c), (0x00, 0x70), [(0x6300, 0x00f0)], pre=2, group="C04m")
form("BTST_IMM_A8", P, "cpu.btst_imm_abs(op, op2)", c(0x7e), ANY8, [(0x7300, 0x0070)], pre=2, group="C04m")
form("BTST_RN_A8", P, "cpu.btst_rn_abs(op, op2)", c(0x7e), ANY8, [(0x6300, 0x00f0)], pre=2, group="C04m")
for nm, ob, inv, wr in (("BST", 0x67, 0, True), ("BIST", 0x67, 0x80, True), ("BLD", 0x77, 0, False), ("BILD", 0x77, 0x80, False),
                        ("BAND", 0x76, 0, False), ("BIAND", 0x76, 0x80, False), ("BOR", 0x74, 0, False), ("BIOR", 0x74, 0x80, False),
                        ("BXOR", 0x75, 0, False), ("BIXOR", 0x75, 0x80, False)):
    l = nm.lower()
    form(f"{nm}_R", P, f"cpu.{l}_rn(op)", c(ob), (inv, 0x7f), group="C04r")
    form(f"{nm}_ERN", P, f"cpu.{l}_ern(op, op2)", c(0x7d if wr else 0x7c), (0x00, 0x70), [((ob << 8) | inv, 0x0070)], pre=2, group="C04m")
    form(f"{nm}_A8", P, f"cpu.{l}_abs(op, op2)", c(0x7f if wr else 0x7e), ANY8, [((ob << 8) | inv, 0x0070)], pre=2, group="C04m")

# ---------------------------------------------------------------- C01 MOV
P = "C01"
form("MOV_B_RR", P, "cpu.mov_b(op)", c(0x0c), ANY8, group="C01r")
form("MOV_B_IMM", P, "cpu.mov_b(op)", (0xf0, 0x0f), ANY8, group="C01r")
form("MOV_W_RR", P, "cpu.mov_w(op)", c(0x0d), ANY8, group="C01r")
form("MOV_W_IMM", P, "cpu.mov_w(op)", c(0x79), (0x00, 0x0f), group="C01r")
form("MOV_L_RR", P, "cpu.mov_l(op)", c(0x0f), (0x80, 0x77), group="C01r")
form("MOV_L_IMM", P, "cpu.mov_l(op)", c(0x7a), (0x00, 0x07), group="C01r")
for sz, b_ern, b_d16, b_inc, b_abs, fn in (("B", 0x68, 0x6e, 0x6c, 0x6a, "mov_b"), ("W", 0x69, 0x6f, 0x6d, 0x6b, "mov_w")):
    g = "C01" + sz.lower()
    form(f"MOV_{sz}_LD_ERN", P, f"cpu.{fn}(op)", c(b_ern), (0x00, 0x7f), group=g)
    form(f"MOV_{sz}_ST_ERN", P, f"cpu.{fn}(op)", c(b_ern), (0x80, 0x7f), group=g)
    form(f"MOV_{sz}_LD_D16", P, f"cpu.{fn}(op)", c(b_d16), (0x00, 0x7f), group=g)
    form(f"MOV_{sz}_ST_D16", P, f"cpu.{fn}(op)", c(b_d16), (0x80, 0x7f), group=g)
    form(f"MOV_{sz}_LD_D24", P, f"cpu.{fn}_disp24(op, op2)", c(0x78), (0x00, 0x70), [((b_abs << 8) | 0x20, 0x000f), (0, 0x00ff)], pre=2, group=g)
    form(f"MOV_{sz}_ST_D24", P, f"cpu.{fn}_disp24(op, op2)", c(0x78), (0x00, 0x70), [((b_abs << 8) | 0xa0, 0x000f), (0, 0x00ff)], pre=2, group=g)
    form(f"MOV_{sz}_LD_INC", P, f"cpu.{fn}(op)", c(b_inc), (0x00, 0x7f), group=g)
    form(f"MOV_{sz}_ST_DEC", P, f"cpu.{fn}(op)", c(b_inc), (0x80, 0x7f), group=g)
    form(f"MOV_{sz}_LD_A16", P, f"cpu.{fn}(op)", c(b_abs), (0x00, 0x0f), group=g)
    form(f"MOV_{sz}_ST_A16", P, f"cpu.{fn}(op)", c(b_abs), (0x80, 0x0f), group=g)
    form(f"MOV_{sz}_LD_A24", P, f"cpu.{fn}(op)", c(b_abs), (0x20, 0x0f), [(0, 0x00ff)], group=g)
    form(f"MOV_{sz}_ST_A24", P, f"cpu.{fn}(op)", c(b_abs), (0xa0, 0x0f), [(0, 0x00ff)], group=g)
form("MOV_B_LD_A8", P, "cpu.mov_b(op)", (0x20, 0x0f), ANY8, group="C01b")
form("MOV_B_ST_A8", P, "cpu.mov_b(op)", (0x30, 0x0f), ANY8, group="C01b")
g = "C01l"
ML = "cpu.mov_l(op)"
form("MOV_L_LD_ERN", P, ML, c(0x01), c(0x00), [(0x6900, 0x0077)], group=g)
form("MOV_L_ST_ERN", P, ML, c(0x01), c(0x00), [(0x6980, 0x0077)], group=g)
form("MOV_L_LD_D16", P, ML, c(0x01), c(0x00), [(0x6f00, 0x0077)], group=g)
form("MOV_L_ST_D16", P, ML, c(0x01), c(0x00), [(0x6f80, 0x0077)], group=g)
form("MOV_L_LD_D24", P, ML, c(0x01), c(0x00), [(0x7800, 0x0070), (0x6b20, 0x0007), (0, 0x00ff)], group=g)
form("MOV_L_ST_D24", P, ML, c(0x01), c(0x00), [(0x7880, 0x0070), (0x6ba0, 0x0007), (0, 0x00ff)], group=g)
form("MOV_L_LD_INC", P, ML, c(0x01), c(0x00), [(0x6d00, 0x0077)], group=g)
form("MOV_L_ST_DEC", P, ML, c(0x01), c(0x00), [(0x6d80, 0x0077)], group=g)
form("MOV_L_LD_A16", P, ML, c(0x01), c(0x00), [(0x6b00, 0x0007)], group=g)
form("MOV_L_ST_A16", P, ML, c(0x01), c(0x00), [(0x6b80, 0x0007)], group=g)
form("MOV_L_LD_A24", P, ML, c(0x01), c(0x00), [(0x6b20, 0x0007), (0, 0x00ff)], group=g)
form("MOV_L_ST_A24", P, ML, c(0x01), c(0x00), [(0x6ba0, 0x0007), (0, 0x00ff)], group=g)

# ---------------------------------------------------------------- C05 control flow
P = "C05"
form("BCC_D8", P, "cpu.bcc(op)", (0x40, 0x0f), ANY8, pc="sym", group="C05b")
form("BCC_D16", P, "cpu.bcc(op)", c(0x58), (0x00, 0xf0), pc="sym", group="C05b")
form("JMP_ERN", P, "cpu.jmp(op)", c(0x59), (0x00, 0x70), pc="sym", group="C05j")
form("JMP_A24", P, "cpu.jmp(op)", c(0x5a), ANY8, pc="sym", group="C05j")
form("JMP_IND", P, "cpu.jmp(op)", c(0x5b), ANY8, pc="sym", group="C05j")
form("BSR_D8", P, "cpu.bsr_disp16(op)", c(0x55), ANY8, pc="sym", group="C05s")
form("BSR_D16", P, "cpu.bsr_disp24(op)", c(0x5c), c(0x00), pc="sym", group="C05s")
form("JSR_ERN", P, "cpu.jsr(op)", c(0x5d), (0x00, 0x70), pc="sym", group="C05s")
form("JSR_A24", P, "cpu.jsr(op)", c(0x5e), ANY8, pc="sym", group="C05t")
form("JSR_IND", P, "cpu.jsr(op)", c(0x5f), ANY8, pc="sym", group="C05t")
form("RTS", P, "cpu.rts()", c(0x54), c(0x70), pc="sym", group="C05t")

# ---------------------------------------------------------------- C06 exceptions
P = "C06"
form("RTE", P, "cpu.rte()", c(0x56), c(0x70), pc="sym", group="C06")
form("TRAPA_N", P, "cpu.trapa(op)", c(0x57), (0x00, 0x30), pc="sym", assume="b1 != 0", group="C06")

# ---------------------------------------------------------------- STC (home: C07 - executed as encoded; EA under C08, cost under C20)
P = "C07"
form("STC_B", P, "cpu.stc_b(op)", c(0x02), (0x00, 0x0f), group="C07s")
form("STC_W_ERN", P, "cpu.stc_w_ern(op2)", c(0x01), c(0x40), [(0x6980, 0x0070)], pre=2, group="C07s")
form("STC_W_D16", P, "cpu.stc_w_disp16(op2)", c(0x01), c(0x40), [(0x6f80, 0x0070)], pre=2, group="C07s")
form("STC_W_D24", P, "cpu.stc_w_disp24(op2)", c(0x01), c(0x40), [(0x7800, 0x0070), (0x6ba0, 0), (0, 0x00ff)], pre=2, group="C07s")
form("STC_W_DEC", P, "cpu.stc_w_inc_ern(op2)", c(0x01), c(0x40), [(0x6d80, 0x0070)], pre=2, group="C07s")
form("STC_W_A16", P, "cpu.stc_abs16()", c(0x01), c(0x40), [(0x6b80, 0)], pre=2, group="C07s")
form("STC_W_A24", P, "cpu.stc_abs24()", c(0x01), c(0x40), [(0x6ba0, 0), (0, 0x00ff)], pre=2, group="C07s")

GROUP_SIZE = int(os.environ.get("KOGE29_GROUP_SIZE", "6"))
# heavy forms (memory operands, symbolic PC) verify faster alone; light register forms share a harness
# to amortise Kani's per-harness pipeline cost.  Grouping never changes what is proved.
GROUP_SIZES = {"C02dq": 1, "C01b": 1, "C01w": 1, "C01l": 1, "C01r": 2, "C04m": 2, "C05b": 1, "C05j": 1, "C05s": 1, "C05t": 1, "C06": 1, "C07s": 2}


def spec(t):
    return "(0x%x, 0x%x)" % t


def main():
    if os.environ.get("KOGE29_ALL_SYM_PC"):
        # thorough tier, second pass: EVERY form with a symbolic code address (on-chip RAM or DRAM)
        for f in F:
            f["pc"] = "sym"
    out = ["// GENERATED by kani/gen_forms.py -- do not edit\n"]
    groups = {}
    for f in F:
        fn = "f_" + f["name"].lower()
        out.append(
            "step_harness!(%s, \"%s\", %s, %s, pc=%s, regmask=0x%xu32, relax=%s, b0=%s, b1=%s, w=[%s], pre=%d, assume=|b1, w| %s, |cpu, op, op2| %s);\n"
            % (fn, f["prop"], f["oracle"], f["name"], f["pc"], f["regmask"], "true" if f["relax"] else "false", spec(f["b0"]), spec(f["b1"]), ",".join(spec(x) for x in f["w"]), f["pre"], f["assume"], f["call"])
        )
        groups.setdefault(f["group"], []).append(f)
    reg = {"forms": {}, "groups": {}}
    for g, fs in sorted(groups.items()):
        gs = GROUP_SIZES.get(g, GROUP_SIZE)
        for i in range(0, len(fs), gs):
            chunk = fs[i : i + gs]
            gname = "g_%s_%d" % (g.lower(), i // gs)
            out.append("step_group!(%s, [%s]);\n" % (gname, ", ".join("f_" + x["name"].lower() for x in chunk)))
            reg["groups"][gname] = [x["name"] for x in chunk]
            for x in chunk:
                reg["forms"][x["name"]] = {"prop": x["prop"], "group": gname, "call": x["call"], "pre": x["pre"], "oracle": x["oracle"], "tier": x["tier"], "bounded": x["bounded"], "relax": x["relax"]}
    here = os.path.dirname(os.path.abspath(__file__))
    open(os.path.join(here, "forms_gen.rs"), "w").write("".join(out))
    # the same table for the native witness search (kani/native.rs)
    nat = ["// GENERATED by kani/gen_forms.py -- do not edit\n", "pub static NFORMS: &[NForm] = &[\n"]
    for f in F:
        nat.append("    NForm { name: \"%s\", oracle: isa::f::%s, sym_pc: %s, regmask: 0x%x, relax: %s, b0: %s, b1: %s, w: [%s], pre: %d, call: |cpu, op, op2| { let _ = (op, op2); %s } },\n"
                   % (f["name"], f["oracle"], "true" if f["pc"] == "sym" else "false", f["regmask"], "true" if f["relax"] else "false", spec(f["b0"]), spec(f["b1"]),
                      ",".join(spec(x) for x in f["w"]), f["pre"], f["call"]))
    # native-only entry: the exact (non-relaxed) DIVXU.W contract, which CBMC cannot finish; used by the bounded native
    # comparison when the Verus unit `div` is out of reach after a source change
    nat.append("    NForm { name: \"DIVXU_W_EXACT\", oracle: isa::f::DIVXU_W, sym_pc: false, regmask: 0xffffffff, relax: false, b0: (0x53, 0x0), b1: (0x0, 0xf7), w: [(0x0, 0xffff),(0x0, 0xffff),(0x0, 0xffff),(0x0, 0xffff)], pre: 1, call: |cpu, op, op2| { let _ = (op, op2); cpu.divxu_w(op) } },\n")
    nat.append("];\n")
    open(os.path.join(here, "forms_native.rs"), "w").write("".join(nat))
    os.makedirs(os.path.join(here, "..", "lib"), exist_ok=True)
    json.dump(reg, open(os.path.join(here, "..", "lib", "forms.json"), "w"), indent=1, sort_keys=True)
    print("forms:", len(F), "groups:", len(reg["groups"]))


if __name__ == "__main__":
    main()
