// C17 - 8-bit timer: per-call contract of the REAL Timer8_0::update_tcr / update_timer8_0 on the real Bus
// arrays, against a tick-by-tick reference written from the statement; request_interrupt stubbed by
// C10's contract (counts per vector).  The counting loop runs at most ceil((d-1+255)/d) <= 33 times
// (charge is a u8, divisor >= 8): unwinding bound 34 with unwinding assertions on is COMPLETE.
use super::*;
use crate::bus::Bus;
use crate::cpu::interrupt_controller::InterruptController;

static mut REQ: [u32; 3] = [0; 3]; // vectors 36 (CMIA), 37 (CMIB), 39 (OVI)
static mut REQ_OTHER: u32 = 0;

fn stub_request_interrupt(_ic: &mut InterruptController, num: u8) {
    unsafe {
        match num {
            36 => REQ[0] += 1,
            37 => REQ[1] += 1,
            39 => REQ[2] += 1,
            _ => REQ_OTHER += 1,
        }
    }
}

include!(concat!(env!("KOGE29_VERIF_DIR"), "/kani/c17_ref.rs"));

fn any_bus() -> Bus {
    let mut bus = Bus::new(std::rc::Weak::new());
    bus.io_registrs2[O_TCNT] = kani::any();
    bus.io_registrs2[O_TCSR] = kani::any();
    bus.io_registrs2[O_TCORA] = kani::any();
    bus.io_registrs2[O_TCORB] = kani::any();
    bus
}

/// body shared by the charge-range harnesses: lo..=hi is the range of the instruction charge
fn timer_call_contract(lo: u8, hi: u8) {
    *crate::setting::ENABLE_PRINT_OPCODE.write().unwrap() = false;
    let mut t = Timer8_0::new();
    let tcr: u8 = kani::any();
    kani::assume(tcr & 7 <= 3); // internal clocks and "no clock"; external/cascade selections are outside C17
    t.update_tcr(tcr);
    let d = divisor(tcr);
    // update_tcr decodes the fields
    assert!(t.prescaler == d, "OBL:C17/update_tcr/divisor_decoded");
    assert!(t.is_allowed_cmib == (tcr & 0x80 != 0) && t.is_allowed_cmia == (tcr & 0x40 != 0) && t.is_allowed_ovi == (tcr & 0x20 != 0), "OBL:C17/update_tcr/enable_bits_decoded");
    let residual: u16 = kani::any();
    kani::assume(d == 0 || residual < d); // inv_t: fixed phase 0 <= p < divisor
    t.state = residual;
    let mut bus = any_bus();
    let tcora = bus.io_registrs2[O_TCORA];
    let tcorb = bus.io_registrs2[O_TCORB];
    // where the hardware manual leaves simultaneous events open
    kani::assume(tcr & 0x18 == 0 || tcr & 0x18 == 0x18 || (tcora != tcorb && tcora != 0 && tcorb != 0));
    let s: u8 = kani::any();
    kani::assume(s >= lo && s <= hi && s >= 1);
    let mut r = RefT { tcnt: bus.io_registrs2[O_TCNT], tcsr: bus.io_registrs2[O_TCSR], req: [0; 3] };
    let other: usize = kani::any();
    kani::assume(other < bus.io_registrs2.len() && other != O_TCNT && other != O_TCSR);
    let other_before = bus.io_registrs2[other];
    let mut ic = InterruptController::new();
    let res = t.update_timer8_0(&mut bus, s, &mut ic);
    assert!(res.is_ok(), "OBL:C17/update_timer8_0/ok");
    if d == 0 {
        assert!(bus.io_registrs2[O_TCNT] == r.tcnt && bus.io_registrs2[O_TCSR] == r.tcsr && unsafe { REQ == [0; 3] }, "OBL:C17/update_timer8_0/no_clock_no_count");
    } else {
        let total = residual as u32 + s as u32;
        let k = total / d as u32;
        let mut i = 0;
        while i < k {
            tick(&mut r, tcr, tcora, tcorb);
            i += 1;
        }
        assert!(t.state as u32 == total % d as u32, "OBL:C17/update_timer8_0/residual_is_elapsed_mod_divisor");
        assert!(bus.io_registrs2[O_TCNT] == r.tcnt, "OBL:C17/update_timer8_0/tcnt_counts_floor_elapsed_over_divisor");
        assert!(bus.io_registrs2[O_TCSR] == r.tcsr, "OBL:C17/update_timer8_0/flags_set_exactly_on_match_or_overflow_and_stay_set");
        assert!(unsafe { REQ == r.req && REQ_OTHER == 0 }, "OBL:C17/update_timer8_0/one_request_per_enabled_event");
        kani::cover!(k >= 2, "COVER:several_counts_in_one_call");
    }
    assert!(bus.io_registrs2[other] == other_before && bus.io_registrs2[O_TCORA] == tcora && bus.io_registrs2[O_TCORB] == tcorb, "OBL:C17/update_timer8_0/writes_only_tcnt_and_tcsr");
    kani::cover!(true, "REACH:end");
}

macro_rules! c17_range {
    ($name:ident, $lo:expr, $hi:expr) => {
        #[kani::proof]
        #[kani::unwind(34)]
        #[kani::stub(InterruptController::request_interrupt, stub_request_interrupt)]
        fn $name() {
            timer_call_contract($lo, $hi);
        }
    };
}
// disjoint ranges whose union is every u8 charge 1..=255
// a small, fast sub-range first: a defect that needs only a few counts per call is reported even when the
// big ranges run into the solver limit on changed code
c17_range!(c17_call_charge_001_024_fast, 1, 24);
c17_range!(c17_call_charge_001_063, 1, 63);
c17_range!(c17_call_charge_064_127, 64, 127);
c17_range!(c17_call_charge_128_191, 128, 191);
c17_range!(c17_call_charge_192_223, 192, 223);
c17_range!(c17_call_charge_224_255, 224, 255);

/// partition lemma: splitting the same elapsed time differently never changes the number of counts
#[kani::proof]
fn c17_partition_lemma() {
    let sel: u8 = kani::any();
    kani::assume(sel < 3);
    let d: u32 = match sel {
        0 => 8,
        1 => 64,
        _ => 8192,
    };
    let r: u32 = kani::any();
    let s1: u32 = kani::any();
    let s2: u32 = kani::any();
    kani::assume(r < d && s1 <= 0x00ff_ffff && s2 <= 0x00ff_ffff);
    assert!((r + s1) / d + ((r + s1) % d + s2) / d == (r + s1 + s2) / d, "OBL:C17/lemma/counts_do_not_depend_on_the_partition");
    assert!(((r + s1) % d + s2) % d == (r + s1 + s2) % d, "OBL:C17/lemma/residual_does_not_depend_on_the_partition");
    kani::cover!(true, "REACH:end");
}

/// a TCR write that changes the divisor re-establishes the phase invariant (residual < divisor)
#[kani::proof]
fn c17_clock_change_keeps_phase_invariant() {
    let mut t = Timer8_0::new();
    let tcr0: u8 = kani::any();
    let tcr1: u8 = kani::any();
    kani::assume(tcr0 & 7 <= 3 && tcr1 & 7 <= 3);
    t.update_tcr(tcr0);
    let residual: u16 = kani::any();
    kani::assume(t.prescaler == 0 || residual < t.prescaler);
    t.state = residual;
    t.update_tcr(tcr1);
    assert!(t.prescaler == divisor(tcr1), "OBL:C17/update_tcr/divisor_follows_last_write");
    assert!(t.prescaler == 0 || t.state < t.prescaler, "OBL:C17/update_tcr/no_bunched_counts_after_clock_change");
    kani::cover!(divisor(tcr0) == 8192 && divisor(tcr1) == 8, "COVER:fast_after_slow");
    kani::cover!(true, "REACH:end");
}

/// C15: ANY byte written to TCR (external-clock / cascade selections included) in any reachable timer
/// state, followed by a module update, must not panic (division by zero, overflow).  Only the automatic
/// checks count here; the charge is kept to 1..=63 because the panic-freedom argument does not depend on it
/// (the full charge domain is covered by the c17_call_charge_* harnesses for the internal clocks).
#[kani::proof]
#[kani::unwind(34)]
#[kani::stub(InterruptController::request_interrupt, stub_request_interrupt)]
fn c15_timer_any_tcr_write() {
    *crate::setting::ENABLE_PRINT_OPCODE.write().unwrap() = false;
    let mut t = Timer8_0::new();
    // a reachable state: some internal clock (or none) selected earlier, residual below its divisor
    let tcr0: u8 = kani::any();
    kani::assume(tcr0 & 7 <= 3);
    t.update_tcr(tcr0);
    let residual: u16 = kani::any();
    kani::assume(if t.prescaler == 0 { residual < 8192 } else { residual < t.prescaler });
    t.state = residual;
    // now the guest writes an arbitrary byte
    let tcr1: u8 = kani::any();
    t.update_tcr(tcr1);
    let mut bus = any_bus();
    let s: u8 = kani::any();
    kani::assume(s >= 1 && s <= 63);
    let mut ic = InterruptController::new();
    // only reachable-loop-bound states are of interest: skip the (excluded) case in which a kept residual exceeds a new divisor
    kani::assume(t.prescaler == 0 || t.state < t.prescaler);
    let r = t.update_timer8_0(&mut bus, s, &mut ic);
    assert!(r.is_ok(), "OBL:C15/timer/update_after_any_tcr_write_is_ok");
    kani::cover!(tcr1 & 7 >= 4, "COVER:external_clock_selection");
    kani::cover!(true, "REACH:end");
}
