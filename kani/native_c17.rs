// C17 BOUNDED stand-in on the real code, natively (module crate::modules::timer8::native_c17, cfg(test)):
// 400,000 pseudo-random configurations (TCR with an internal clock or none, residual below the divisor,
// TCNT/TCSR/TCORA/TCORB biased towards small and neighbouring values, charge 1..=255) through the REAL
// update_tcr / update_timer8_0 / request_interrupt, compared with the tick-by-tick reference, plus the
// partition clause (the same elapsed time charged in one call or split into two).  Not a proof; it keeps C17
// decided when a rewrite of the timer pushes the Kani harnesses over the solver limit.
use super::*;
use crate::bus::Bus;
use crate::cpu::interrupt_controller::InterruptController;

include!(concat!(env!("KOGE29_VERIF_DIR"), "/kani/c17_ref.rs"));

struct Lcg(u64);
impl Lcg {
    fn next(&mut self) -> u32 {
        self.0 = self.0.wrapping_mul(6364136223846793005).wrapping_add(1442695040888963407);
        (self.0 >> 33) as u32
    }
    fn byte(&mut self) -> u8 {
        match self.next() % 4 {
            0 => (self.next() % 6) as u8,
            1 => 0xff - (self.next() % 4) as u8,
            _ => self.next() as u8,
        }
    }
}

fn run_real(t: &mut Timer8_0, bus: &mut Bus, s: u8) -> [u32; 3] {
    let mut ic = InterruptController::new();
    t.update_timer8_0(bus, s, &mut ic).unwrap();
    let mut req = [0u32; 3];
    for i in 0..ic.vh_len() {
        match ic.vh_get(i) {
            36 => req[0] += 1,
            37 => req[1] += 1,
            39 => req[2] += 1,
            _ => req[0] += 1000,
        }
    }
    req
}

#[test]
fn native_c17_bounded() {
    if std::env::var("KOGE29_C17").is_err() {
        return;
    }
    let seed: u64 = std::env::var("VERIF_SEED").ok().and_then(|s| s.parse().ok()).unwrap_or(0);
    let mut r = Lcg(0x1234_5678_9abc_def0 ^ seed);
    let mut bus = Bus::new(std::rc::Weak::new());
    let mut fails: Vec<(&'static str, String)> = vec![];
    let n = 400_000u32;
    for _ in 0..n {
        let tcr = (r.byte() & 0xf8) | (r.next() % 4) as u8;
        let d = divisor(tcr);
        let residual = if d == 0 { 0 } else { (r.next() % d as u32) as u16 };
        let (tcnt, tcsr, mut tcora, mut tcorb) = (r.byte(), r.byte() & 0xe0, r.byte(), r.byte());
        if tcr & 0x18 == 0x08 || tcr & 0x18 == 0x10 {
            if tcora == 0 {
                tcora = 1;
            }
            if tcorb == 0 {
                tcorb = 2;
            }
            if tcora == tcorb {
                tcorb = tcorb.wrapping_add(1).max(1);
                if tcora == tcorb {
                    continue;
                }
            }
        }
        let s = (r.next() % 255) as u8 + 1;
        let setup = |bus: &mut Bus| -> Timer8_0 {
            let mut t = Timer8_0::new();
            t.update_tcr(tcr);
            t.state = residual;
            bus.io_registrs2[O_TCNT] = tcnt;
            bus.io_registrs2[O_TCSR] = tcsr;
            bus.io_registrs2[O_TCORA] = tcora;
            bus.io_registrs2[O_TCORB] = tcorb;
            t
        };
        let desc = format!("tcr={:02x} residual={} tcnt={:02x} tcsr={:02x} tcora={:02x} tcorb={:02x} charge={}", tcr, residual, tcnt, tcsr, tcora, tcorb, s);
        let mut t = setup(&mut bus);
        let req = run_real(&mut t, &mut bus, s);
        let mut m = RefT { tcnt, tcsr, req: [0; 3] };
        let mut want_state = residual;
        if d != 0 {
            let total = residual as u32 + s as u32;
            for _ in 0..total / d as u32 {
                tick(&mut m, tcr, tcora, tcorb);
            }
            want_state = (total % d as u32) as u16;
        }
        if bus.io_registrs2[O_TCNT] != m.tcnt {
            fails.push(("tcnt_counts_floor_elapsed_over_divisor", format!("{} -> tcnt {:02x} expected {:02x}", desc, bus.io_registrs2[O_TCNT], m.tcnt)));
        }
        if bus.io_registrs2[O_TCSR] != m.tcsr {
            fails.push(("flags_set_exactly_on_match_or_overflow", format!("{} -> tcsr {:02x} expected {:02x}", desc, bus.io_registrs2[O_TCSR], m.tcsr)));
        }
        if req != m.req {
            fails.push(("one_request_per_enabled_event", format!("{} -> requests {:?} expected {:?}", desc, req, m.req)));
        }
        if d != 0 && t.state != want_state {
            fails.push(("residual_is_elapsed_mod_divisor", format!("{} -> residual {} expected {}", desc, t.state, want_state)));
        }
        // partition clause: the same elapsed time in two instructions
        if s >= 2 {
            let s1 = (r.next() % (s as u32 - 1)) as u8 + 1;
            let mut t2 = setup(&mut bus);
            let ra = run_real(&mut t2, &mut bus, s1);
            let rb = run_real(&mut t2, &mut bus, s - s1);
            let sum = [ra[0] + rb[0], ra[1] + rb[1], ra[2] + rb[2]];
            if bus.io_registrs2[O_TCNT] != m.tcnt || bus.io_registrs2[O_TCSR] != m.tcsr || sum != m.req {
                fails.push(("same_result_for_every_partition_of_the_elapsed_time", format!("{} split {}+{}", desc, s1, s - s1)));
            }
        }
        if fails.len() > 30 {
            break;
        }
    }
    println!("C17-BOUNDED cases={} failures={}", n, fails.len());
    let mut seen = std::collections::BTreeSet::new();
    for (c, d) in fails.iter() {
        if seen.insert(*c) {
            println!("C17-FAIL {} {}", c, d);
        }
    }
}
