// C19 - bus-cycle cost: contracts on the REAL Cpu::calc_state_with_addr / calc_state / get_wait_state /
// Bus::get_area_index / Bus::check_dram_area (no stubs; real Bus::read of the bus-controller registers).
// This unit is also what justifies the cost seam used by every instruction harness.

use super::isa;
use super::super::*;
use crate::bus::Bus;

fn any_kind() -> (StateType, u8) {
    let k: u8 = kani::any();
    kani::assume(k < 6);
    let t = match k {
        0 => StateType::I,
        1 => StateType::J,
        2 => StateType::K,
        3 => StateType::L,
        4 => StateType::M,
        _ => StateType::N,
    };
    (t, k)
}

pub struct BusCfg {
    pub abwcr: u8,
    pub astcr: u8,
    pub wcrh: u8,
    pub wcrl: u8,
    pub drcra: u8,
}

fn cpu_with_cfg() -> (Cpu, BusCfg) {
    *crate::setting::ENABLE_PRINT_OPCODE.write().unwrap() = false;
    let mut cpu = Cpu::new();
    let c = BusCfg { abwcr: kani::any(), astcr: kani::any(), wcrh: kani::any(), wcrl: kani::any(), drcra: kani::any() };
    // the five bus-controller bytes, set directly in their backing store (offsets inside H'FEE000..)
    cpu.bus.io_registrs1[0x20] = c.abwcr;
    cpu.bus.io_registrs1[0x21] = c.astcr;
    cpu.bus.io_registrs1[0x22] = c.wcrh;
    cpu.bus.io_registrs1[0x23] = c.wcrl;
    cpu.bus.io_registrs1[0x26] = c.drcra;
    (cpu, c)
}

/// the statement's cost of ONE bus cycle; None = outside the quantifier
pub fn spec_unit(k: u8, addr: u32, c: &BusCfg) -> Option<u8> {
    if k == isa::K_N {
        return Some(1);
    }
    if addr > 0xff_ffff {
        return None;
    }
    if addr >= 0xffbf20 && addr <= 0xffff1f {
        return Some(2);
    }
    // on-chip I/O register ranges: documented TODO, excluded
    if (addr >= 0xfee000 && addr <= 0xfee0ff) || (addr >= 0xffff20 && addr <= 0xffffe9) {
        return None;
    }
    let area = (addr >> 21) as u8;
    let dras = c.drcra >> 5;
    // areas 3-5 only with DRAM select 0 or 1 (then they are ordinary external areas)
    if area >= 3 && area <= 5 && dras > 1 {
        return None;
    }
    let dram = area == 2 && dras >= 1;
    let eight_bit = (c.abwcr >> area) & 1 == 1;
    let three_state = (c.astcr >> area) & 1 == 1;
    let wait = if area < 4 { (c.wcrl >> (2 * area)) & 3 } else { (c.wcrh >> (2 * (area - 4))) & 3 };
    let per_access = if dram {
        4 + wait
    } else if three_state {
        3 + wait
    } else {
        2
    };
    let word_kind = k == isa::K_I || k == isa::K_J || k == isa::K_K || k == isa::K_M;
    let accesses = if eight_bit && word_kind { 2 } else { 1 };
    Some(accesses * per_access)
}

#[kani::proof]
fn c19_cost_formula() {
    let (cpu, c) = cpu_with_cfg();
    let (t, k) = any_kind();
    let n: u8 = kani::any();
    kani::assume(n >= 1 && n <= 5);
    let addr: u32 = kani::any();
    let r = cpu.calc_state_with_addr(t, n, addr);
    if let Some(unit) = spec_unit(k, addr, &c) {
        kani::cover!(unit == 14, "COVER:max_unit");
        kani::cover!(unit == 2 && addr < 0x200000, "COVER:two_state_area0");
        // what the cost seam of the instruction harnesses assumes of this function: 1 for internal cycles, 1..=14 otherwise
        assert!(unit >= 1 && unit <= 14 && (k != isa::K_N || unit == 1), "OBL:C19/calc_state_with_addr/unit_range_assumed_by_the_cost_seam");
        assert!(r.is_ok(), "OBL:C19/calc_state_with_addr/ok");
        if let Ok(v) = r {
            assert!(v == n * unit, "OBL:C19/calc_state_with_addr/n_times_unit_of_own_area");
        }
    }
    kani::cover!(true, "REACH:end");
}

#[kani::proof]
fn c19_calc_state() {
    let (mut cpu, c) = cpu_with_cfg();
    let (t, k) = any_kind();
    let n: u8 = kani::any();
    kani::assume(n >= 1 && n <= 5);
    let pc: u32 = kani::any();
    cpu.operating_pc = pc;
    let r = cpu.calc_state(t, n);
    if k == isa::K_L || k == isa::K_M {
        assert!(r.is_err(), "OBL:C19/calc_state/data_kinds_need_an_address");
    } else if let Some(unit) = spec_unit(k, pc, &c) {
        assert!(r.is_ok(), "OBL:C19/calc_state/ok");
        if let Ok(v) = r {
            assert!(v == n * unit, "OBL:C19/calc_state/costed_at_operating_pc");
        }
    }
    kani::cover!(true, "REACH:end");
}

#[kani::proof]
fn c19_wait_and_area() {
    let (cpu, c) = cpu_with_cfg();
    let i: u8 = kani::any();
    let r = cpu.get_wait_state(i);
    if i < 4 {
        assert!(r.is_ok() && r.unwrap() == (c.wcrl >> (2 * i)) & 3, "OBL:C19/get_wait_state/wcrl_field");
    } else if i < 8 {
        assert!(r.is_ok() && r.unwrap() == (c.wcrh >> (2 * (i - 4))) & 3, "OBL:C19/get_wait_state/wcrh_field");
    } else {
        assert!(r.is_err(), "OBL:C19/get_wait_state/invalid_area");
    }
    let a: u32 = kani::any();
    let g = Bus::get_area_index(a);
    if a <= 0xff_ffff {
        assert!(g.is_ok() && g.unwrap() == (a >> 21) as u8, "OBL:C19/get_area_index/area_is_addr_div_2MiB");
    } else {
        assert!(g.is_err(), "OBL:C19/get_area_index/outside_16MiB");
    }
    let d = cpu.bus.check_dram_area(2);
    assert!(d.is_ok() && d.unwrap() == ((c.drcra >> 5) >= 1), "OBL:C19/check_dram_area/area2");
    kani::cover!(true, "REACH:end");
}
