// Generic single-instruction contract harness (module crate::cpu::verif_hooks::kstep, cfg(kani)).
//
//   {pre}  registers, CCR symbolic; instruction words symbolic inside the form's encoding class;
//          memory symbolic through the bus seam; PC concrete (default placement) or symbolic
//   call   the real handler entry (the function `exec` dispatches to), after emulating the
//          dispatcher's own fetches
//   {post} the outcome equals isa::step (spec/isa.rs), clause by clause; each clause is one named
//          obligation "OBL:<property>/<FORM>/<clause>"
//
// Automatic Kani checks (overflow, bounds, unwrap, panic) inside the real code are the C15
// obligations of the same run.

use super::isa;
use super::seam::{self, seam};
use super::super::*;
use crate::bus::Bus;

pub const PC_DEFAULT: u32 = 0xffc100;

pub fn new_cpu() -> Cpu {
    *crate::setting::ENABLE_PRINT_OPCODE.write().unwrap() = false;
    // The bus is replaced by its contract stub in these harnesses, so the backing stores are never
    // indexed; build the Cpu with empty DRAM/vector/register stores to keep the heap small.
    let module_manager = std::rc::Rc::new(std::cell::RefCell::new(crate::modules::ModuleManager::new()));
    let bus = Bus {
        message_tx: None,
        module_manager: std::rc::Rc::downgrade(&module_manager),
        cpu_state_sum: 0,
        memory: crate::memory::create_memory(),
        exception_handling_vector: Vec::new().into_boxed_slice(),
        dram: Vec::new().into_boxed_slice(),
        io_registrs1: Vec::new().into_boxed_slice(),
        io_registrs2: Vec::new().into_boxed_slice(),
        io_port_in: [0; crate::bus::IO_PORT_SIZE],
    };
    let mut cpu = Cpu {
        #[cfg(not(test))]
        socket: None,
        bus,
        pc: 0,
        operating_pc: 0,
        ccr: 0,
        er: [0; 8],
        interrupt_controller: interrupt_controller::InterruptController::new(),
        exit_addr: 0,
        module_manager,
        state_sum: 0,
    };
    // no loop here: harnesses that need a small global unwinding bound use this constructor too
    cpu.er = [kani::any(), kani::any(), kani::any(), kani::any(), kani::any(), kani::any(), kani::any(), kani::any()];
    cpu.ccr = kani::any();
    cpu
}

/// symbolic, even, with the whole instruction (10 bytes) inside on-chip RAM or DRAM
pub fn any_code_pc() -> u32 {
    let pc: u32 = kani::any();
    kani::assume(pc & 1 == 0);
    kani::assume((pc >= 0xffbf20 && pc <= 0xffff1f - 11) || (pc >= 0x400000 && pc <= 0x5fffff - 11));
    pc
}

pub struct Setup {
    pub pc0: u32,
    pub wd: isa::Words,
    pub st0: isa::St,
}

/// place the instruction words at pc0 in the seam's initial memory and emulate `prefetched` fetches
pub fn setup(cpu: &mut Cpu, pc0: u32, hn: u8, b0: u8, b1: u8, w: [u16; 4], prefetched: u32) -> Setup {
    setup_x(cpu, pc0, hn, b0, b1, w, prefetched, false)
}

pub fn setup_x(cpu: &mut Cpu, pc0: u32, hn: u8, b0: u8, b1: u8, w: [u16; 4], prefetched: u32, relax_div: bool) -> Setup {
    let s = seam();
    s.set_code(
        pc0,
        [b0, b1, (w[0] >> 8) as u8, w[0] as u8, (w[1] >> 8) as u8, w[1] as u8, (w[2] >> 8) as u8, w[2] as u8, (w[3] >> 8) as u8, w[3] as u8],
    );
    let st0 = isa::St { er: cpu.er, ccr: cpu.ccr, pc: pc0 };
    cpu.pc = pc0 + 2 * prefetched;
    cpu.operating_pc = pc0;
    Setup { pc0, wd: isa::Words { relax_div, hn, b0, b1, w }, st0 }
}

pub fn in_exp_w(e: &isa::Exp, a: u32) -> bool {
    let mut hit = false;
    let mut i = 0;
    while i < isa::MAX_W {
        if i < e.nw && e.w[i].0 == a {
            hit = true;
        }
        i += 1;
    }
    hit
}
pub fn in_exp_r(e: &isa::Exp, a: u32) -> bool {
    let mut hit = false;
    let mut i = 0;
    while i < isa::MAX_R {
        if i < e.nr && e.r[i] == a {
            hit = true;
        }
        i += 1;
    }
    hit
}

/// every logged write goes to an address the instruction is specified to write
pub fn writes_in_frame(e: &isa::Exp) -> bool {
    let s = seam();
    let mut ok = true;
    let mut i = 0;
    while i < seam::N_WR {
        if i < s.nw && !in_exp_w(e, s.wr[i].0) {
            ok = false;
        }
        i += 1;
    }
    ok
}
/// every expected write happened and the final value is the specified one
pub fn writes_done(e: &isa::Exp) -> bool {
    let s = seam();
    let mut ok = true;
    let mut i = 0;
    while i < isa::MAX_W {
        if i < e.nw {
            let (a, v, known) = e.w[i];
            if !s.written(a) {
                ok = false;
            }
            if known && s.current(a) != v {
                ok = false;
            }
        }
        i += 1;
    }
    ok
}
/// every logged read is an instruction fetch (inside [pc0, pc0+len)) or a specified data address
pub fn reads_in_frame(e: &isa::Exp, pc0: u32) -> bool {
    let s = seam();
    let mut ok = true;
    let mut i = 0;
    while i < seam::N_RD {
        if i < s.nr {
            let a = s.rd[i];
            let is_fetch = a >= pc0 && a < pc0 + e.len;
            if !is_fetch && !in_exp_r(e, a) && !in_exp_w(e, a) {
                ok = false;
            }
        }
        i += 1;
    }
    ok
}

pub fn exp_count(e: &isa::Exp, k: u8) -> u32 {
    let mut n = 0u32;
    let mut i = 0;
    while i < isa::MAX_CY {
        if i < e.ncy && e.cy[i].0 == k {
            n += e.cy[i].1 as u32;
        }
        i += 1;
    }
    n
}
pub fn exp_addr(e: &isa::Exp, k: u8) -> u32 {
    let mut a = 0u32;
    let mut i = 0;
    while i < isa::MAX_CY {
        if i < e.ncy && e.cy[i].0 == k {
            a = e.cy[i].2;
        }
        i += 1;
    }
    a
}
/// the logged bus-cycle mix equals the manual's: per kind the same total count, every cycle costed
/// in the area of the specified address (fetch: an address inside the instruction; internal: none)
pub fn cost_mix_ok(e: &isa::Exp, pc0: u32) -> bool {
    let s = seam();
    let mut ok = true;
    let mut k = 0u8;
    while k < 6 {
        let mut n = 0u32;
        let mut i = 0;
        while i < seam::N_CY {
            if i < s.ncy && s.cy[i].0 == k {
                n += s.cy[i].1 as u32;
                let a = s.cy[i].2;
                if k == isa::K_I {
                    if !(a >= pc0 && a < pc0 + e.len) {
                        ok = false;
                    }
                } else if k != isa::K_N && isa::cost_class(a) != isa::cost_class(exp_addr(e, k)) {
                    ok = false;
                }
            }
            i += 1;
        }
        if n != exp_count(e, k) {
            ok = false;
        }
        k += 1;
    }
    ok
}
pub fn cost_sum() -> u32 {
    let s = seam();
    let mut t = 0u32;
    let mut i = 0;
    while i < seam::N_CY {
        if i < s.ncy {
            t += s.cy[i].3 as u32;
        }
        i += 1;
    }
    t
}

pub fn regs_match(cpu_er: &[u32; 8], e: &isa::Exp) -> bool {
    let mut ok = true;
    let mut i = 0;
    while i < 8 {
        if (cpu_er[i] ^ e.st.er[i]) & !e.free_er[i] != 0 {
            ok = false;
        }
        i += 1;
    }
    ok
}

/// The post-condition, clause by clause.  `$p` home property, `$f` oracle form (isa::f::<f>), `$l` label used
/// in the obligation ids.  Kani's assert! also assumes its condition afterwards, so every clause is
/// asserted on its own branch of a symbolic selector: a clause that fails (even for every input) can
/// never make a later clause pass vacuously.
macro_rules! post_step {
    ($p:literal, $f:ident, $l:ident, $cpu:ident, $su:ident, $res:ident) => {{
        let exp = isa::step(&$su.st0, &$su.wd, &mut seam::InitView);
        // harness self-check: the encoding class given to this harness is exactly this form
        assert!(exp.kind == isa::Kind::Exec && exp.form == isa::f::$f, concat!("OBL:SELF/", stringify!($l), "/encoding_class"));
        assert!(!seam().overflow, concat!("OBL:SELF/", stringify!($l), "/log_capacity"));
        kani::assume(exp.pre);
        kani::cover!(exp.all_mapped, "COVER:mapped");
        let clause: u8 = kani::any();
        if exp.all_mapped {
            if clause == 0 {
                assert!($res.is_ok(), concat!("OBL:", $p, "/", stringify!($l), "/ok"));
            }
            if let Ok(charged) = $res {
                match clause {
                    1 => assert!(regs_match(&$cpu.er, &exp), concat!("OBL:", $p, "/", stringify!($l), "/regs")),
                    2 => assert!(($cpu.ccr ^ exp.st.ccr) & !exp.free_ccr == 0, concat!("OBL:", $p, "/", stringify!($l), "/flags")),
                    3 => assert!($cpu.pc == exp.st.pc, concat!("OBL:", $p, "/", stringify!($l), "/pc")),
                    4 => assert!(writes_done(&exp), concat!("OBL:", $p, "/", stringify!($l), "/mem_value")),
                    5 => assert!(writes_in_frame(&exp), concat!("OBL:", $p, "/", stringify!($l), "/mem_frame")),
                    6 => assert!(writes_in_frame(&exp) && reads_in_frame(&exp, $su.pc0), concat!("OBL:C08/", stringify!($l), "/ea")),
                    7 => assert!(cost_mix_ok(&exp, $su.pc0), concat!("OBL:C20/", stringify!($l), "/cycle_mix")),
                    8 => assert!(charged as u32 == cost_sum(), concat!("OBL:C20/", stringify!($l), "/charge_is_sum")),
                    9 => assert!(seam().msgs == 0, concat!("OBL:", $p, "/", stringify!($l), "/no_message")),
                    // C08: post-increment / pre-decrement / stack forms update the full 32-bit address register by the
                    // operand size and nothing else touches an address register (the register file as a whole)
                    11 => assert!(regs_match(&$cpu.er, &exp), concat!("OBL:C08/", stringify!($l), "/address_registers")),
                    // C07: a valid encoding runs as exactly the instruction it encodes and consumes exactly its length
                    // (decoding inside the entry functions included)
                    12 => assert!(regs_match(&$cpu.er, &exp) && $cpu.pc == exp.st.pc && writes_done(&exp) && writes_in_frame(&exp),
                        concat!("OBL:C07/", stringify!($l), "/executed_as_encoded_with_its_length")),
                    _ => {}
                }
            }
        } else if clause == 10 {
            assert!($res.is_err(), concat!("OBL:C15/", stringify!($l), "/err_on_unmapped"));
        }
    }};
}

pub const A: (u16, u16) = (0, 0xffff); // fully symbolic extension word

pub fn mkw(spec: (u16, u16)) -> u16 {
    spec.0 | (kani::any::<u16>() & spec.1)
}

macro_rules! pc_mode {
    (fixed) => {
        PC_DEFAULT
    };
    (sym) => {
        any_code_pc()
    };
}

/// One contract harness for one instruction form.
///   b0=(value,mask) b1=(value,mask): first word = value | (symbolic & mask)
///   w=[..4 x (value,mask)]: following words;  pre = words already fetched by the dispatcher
macro_rules! step_harness {
    ($name:ident, $p:literal, $f:ident, $l:ident, pc=$pcm:ident, regmask=$rm:expr, relax=$rx:expr, b0=($b0v:expr,$b0m:expr), b1=($b1v:expr,$b1m:expr),
     w=[$w0:expr,$w1:expr,$w2:expr,$w3:expr], pre=$pre:expr, assume=|$ab1:ident, $aw:ident| $asm:expr, |$cpu:ident, $op:ident, $op2:ident| $call:expr) => {
        fn $name() {
            let mut $cpu = new_cpu();
            if $rm != 0xffff_ffffu32 {
                // BOUNDED variant: every register restricted to the bits of the mask
                let mut i = 0;
                while i < 8 {
                    $cpu.er[i] &= $rm;
                    i += 1;
                }
            }
            let pc0 = pc_mode!($pcm);
            let b0: u8 = if $b0m == 0 { $b0v } else { $b0v | (kani::any::<u8>() & $b0m) };
            let b1: u8 = if $b1m == 0 { $b1v } else { $b1v | (kani::any::<u8>() & $b1m) };
            let w: [u16; 4] = [mkw($w0), mkw($w1), mkw($w2), mkw($w3)];
            {
                #[allow(unused_variables)]
                let ($ab1, $aw) = (b1, &w);
                kani::assume($asm);
            }
            let hn: u8 = if $b0m == 0x0f { $b0v >> 4 } else { 0xff };
            let su = setup_x(&mut $cpu, pc0, hn, b0, b1, w, $pre, $rx);
            #[allow(unused_variables)]
            let $op: u16 = ((b0 as u16) << 8) | b1 as u16;
            #[allow(unused_variables)]
            let $op2: u16 = w[0];
            let res = $call;
            post_step!($p, $f, $l, $cpu, su, res);
        }
    };
}

/// A proof harness running one of several form contracts, selected by a symbolic index: all listed
/// forms are verified by the one run (each keeps its own named obligations); grouping only
/// amortises Kani's per-harness start-up cost.
macro_rules! step_group {
    ($g:ident, [$($f:ident),* $(,)?]) => {
        #[kani::proof]
        #[kani::stub(Bus::read, seam::bus_read)]
        #[kani::stub(Bus::write, seam::bus_write)]
        #[kani::stub(Cpu::calc_state_with_addr, seam::cost)]
        #[kani::stub(Cpu::send_message, seam::cpu_send_message)]
        #[kani::stub(Bus::send_message, seam::bus_send_message)]
        #[kani::stub(Cpu::trapa_emulate_mes2, seam::mes_call)]
        fn $g() {
            let sel: usize = kani::any();
            let mut i = 0usize;
            $(
                if sel == i {
                    $f();
                }
                i += 1;
            )*
            kani::assume(sel < i);
            kani::cover!(true, "REACH:group_end");
        }
    };
}
