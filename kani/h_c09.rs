// C09 big-endian composition: the REAL read/write_abs24_w/l against the bus seam contract.
use super::isa;
use super::kstep::*;
use super::seam::{self, seam};
use super::super::*;
use crate::bus::Bus;

fn all_mapped(a: u32, n: u32) -> bool {
    let mut ok = true;
    let mut i = 0;
    while i < n {
        if !isa::mapped(a.wrapping_add(i)) {
            ok = false;
        }
        i += 1;
    }
    ok
}

fn any_addr() -> u32 {
    let a: u32 = kani::any();
    // everything up to and a little beyond the 16 MiB space (all regions, holes and boundaries)
    kani::assume(a <= 0x0100_0010);
    a
}

#[kani::proof]
#[kani::stub(Bus::read, seam::bus_read)]
#[kani::stub(Bus::write, seam::bus_write)]
fn c09_read_word() {
    let cpu = new_cpu();
    let a = any_addr();
    let b0 = seam().init_val(a);
    let b1 = seam().init_val(a.wrapping_add(1));
    let r = cpu.read_abs24_w(a);
    if all_mapped(a, 2) {
        assert!(r.is_ok() && r.unwrap() == ((b0 as u16) << 8 | b1 as u16), "OBL:C09/read_abs24_w/big_endian_of_2_consecutive_bytes");
    } else {
        assert!(r.is_err(), "OBL:C09/read_abs24_w/error_if_any_byte_unmapped");
    }
    kani::cover!(!all_mapped(a, 2) && isa::mapped(a), "COVER:word_straddles_region_end");
    kani::cover!(true, "REACH:end");
}

#[kani::proof]
#[kani::stub(Bus::read, seam::bus_read)]
#[kani::stub(Bus::write, seam::bus_write)]
fn c09_read_long() {
    let cpu = new_cpu();
    let a = any_addr();
    let b0 = seam().init_val(a);
    let b1 = seam().init_val(a.wrapping_add(1));
    let b2 = seam().init_val(a.wrapping_add(2));
    let b3 = seam().init_val(a.wrapping_add(3));
    let r = cpu.read_abs24_l(a);
    if all_mapped(a, 4) {
        assert!(r.is_ok() && r.unwrap() == ((b0 as u32) << 24 | (b1 as u32) << 16 | (b2 as u32) << 8 | b3 as u32), "OBL:C09/read_abs24_l/big_endian_of_4_consecutive_bytes");
    } else {
        assert!(r.is_err(), "OBL:C09/read_abs24_l/error_if_any_byte_unmapped");
    }
    kani::cover!(all_mapped(a, 4), "COVER:long_mapped");
    kani::cover!(true, "REACH:end");
}

fn only_wrote(a: u32, n: u32) -> bool {
    let s = seam();
    let mut ok = s.nw == n as usize;
    let mut i = 0;
    while i < seam::N_WR {
        if i < s.nw && !(s.wr[i].0 >= a && s.wr[i].0 < a + n) {
            ok = false;
        }
        i += 1;
    }
    ok
}

#[kani::proof]
#[kani::stub(Bus::read, seam::bus_read)]
#[kani::stub(Bus::write, seam::bus_write)]
fn c09_write_word() {
    let mut cpu = new_cpu();
    let a = any_addr();
    let v: u16 = kani::any();
    let w = cpu.write_abs24_w(a, v);
    if all_mapped(a, 2) {
        assert!(w.is_ok(), "OBL:C09/write_abs24_w/ok_when_all_bytes_mapped");
        let s = seam();
        assert!(s.current(a) == (v >> 8) as u8 && s.current(a + 1) == v as u8, "OBL:C09/write_abs24_w/stores_big_endian_bytes");
        assert!(only_wrote(a, 2), "OBL:C09/write_abs24_w/each_byte_exactly_once_nothing_else");
    } else {
        assert!(w.is_err(), "OBL:C09/write_abs24_w/error_if_any_byte_unmapped");
    }
    kani::cover!(true, "REACH:end");
}

#[kani::proof]
#[kani::stub(Bus::read, seam::bus_read)]
#[kani::stub(Bus::write, seam::bus_write)]
fn c09_write_long() {
    let mut cpu = new_cpu();
    let a = any_addr();
    let v: u32 = kani::any();
    let w = cpu.write_abs24_l(a, v);
    if all_mapped(a, 4) {
        assert!(w.is_ok(), "OBL:C09/write_abs24_l/ok_when_all_bytes_mapped");
        let s = seam();
        assert!(s.current(a) == (v >> 24) as u8 && s.current(a + 1) == (v >> 16) as u8 && s.current(a + 2) == (v >> 8) as u8 && s.current(a + 3) == v as u8,
            "OBL:C09/write_abs24_l/stores_big_endian_bytes");
        assert!(only_wrote(a, 4), "OBL:C09/write_abs24_l/each_byte_exactly_once_nothing_else");
    } else {
        assert!(w.is_err(), "OBL:C09/write_abs24_l/error_if_any_byte_unmapped");
    }
    kani::cover!(true, "REACH:end");
}

/// The seam's address map IS the real bus's: for every u32 address the REAL Bus::read succeeds exactly where
/// spec/isa.rs::mapped says so (no stub in this harness).  This is
/// the link between the bus seam used by every instruction harness and the real decoder (the Verus unit
/// proves the same of the extracted text; this harness runs the compiled function).
#[kani::proof]
fn c09_seam_map_is_the_real_map() {
    *crate::setting::ENABLE_PRINT_OPCODE.write().unwrap() = false;
    let cpu = Cpu::new();
    let a: u32 = kani::any();
    let r = cpu.bus.read(a);
    assert!(r.is_ok() == isa::mapped(a), "OBL:C09/real_Bus::read/accessible_iff_in_the_five_ranges");
    kani::cover!(a > 0x00ff_ffff, "COVER:above_16MiB");
    kani::cover!(isa::mapped(a), "COVER:mapped");
    kani::cover!(true, "REACH:end");
}
