// C15 - instruction fetch at an arbitrary PC (the other C15 obligations are the automatic panic /
// overflow / bounds checks Kani generates inside /repo/src in every other harness).
use super::isa;
use super::kstep::*;
use super::seam::{self, seam};
use super::super::*;
use crate::bus::Bus;

#[kani::proof]
#[kani::stub(Bus::read, seam::bus_read)]
#[kani::stub(Bus::write, seam::bus_write)]
fn c15_fetch_any_pc() {
    let mut cpu = new_cpu();
    cpu.pc = kani::any();
    let pc0 = cpu.pc;
    let _ = cpu.fetch();
    // reached only if the fetch did not panic
    assert!(cpu.pc == pc0.wrapping_add(2), "OBL:C15/fetch/advances_pc_by_2");
    kani::cover!(true, "REACH:end");
}
