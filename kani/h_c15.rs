// C15 - instruction fetch at an arbitrary PC (the other C15 obligations are the automatic panic /
// overflow / bounds checks Kani generates inside /repo/src in every other harness).
use super::isa;
use super::kstep::*;
use super::seam::{self, seam};
use super::super::*;
use crate::bus::Bus;

#[kani::proof]
#[kani::stub(Bus::read, seam::bus_read)]
#[kani::stub(Bus::write, seam::bus_write)]
fn c15_fetch_any_pc() {
    let mut cpu = new_cpu();
    cpu.pc = kani::any();
    let pc0 = cpu.pc;
    let _ = cpu.fetch();
    // reached only if the fetch did not panic
    assert!(cpu.pc == pc0.wrapping_add(2), "OBL:C15/fetch/advances_pc_by_2");
    kani::cover!(true, "REACH:end");
}

/// arbitrary registers / CCR, arbitrary instruction words at the default code address, dispatcher prefix of one
/// or two words already fetched
fn any_call_state() -> (Cpu, u16, u16) {
    let mut cpu = new_cpu();
    let w: [u16; 4] = [kani::any(), kani::any(), kani::any(), kani::any()];
    let b0: u8 = kani::any();
    let b1: u8 = kani::any();
    let pre: u32 = if kani::any() { 1 } else { 2 };
    let _ = setup(&mut cpu, PC_DEFAULT, 0xff, b0, b1, w, pre);
    (cpu, ((b0 as u16) << 8) | b1 as u16, w[0])
}

include!(concat!(env!("KOGE29_VERIF_DIR"), "/kani/c15_gen.rs"));

