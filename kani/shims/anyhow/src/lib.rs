//! Payload-free model of the `anyhow` surface the emulator uses.
//! `Error` carries no data, so `bail!`/`anyhow!`/`with_context` never format anything.
//! Only the Ok/Err distinction is observable, which is all the verified properties speak about.
use std::fmt;

#[derive(Debug, Clone, Copy, PartialEq, Eq)]
pub struct Error;

impl fmt::Display for Error {
    fn fmt(&self, f: &mut fmt::Formatter<'_>) -> fmt::Result {
        f.write_str("error")
    }
}

pub type Result<T, E = Error> = core::result::Result<T, E>;

impl<E> From<E> for Error
where
    E: std::error::Error + Send + Sync + 'static,
{
    #[inline]
    fn from(_: E) -> Self {
        Error
    }
}

// The message is never formatted, but every ARGUMENT EXPRESSION is evaluated, exactly as format_args! would
// evaluate it: arithmetic inside an error message (e.g. `pc - 2 - PROGRAM_START_ADDR`) can overflow and panic,
// and must stay visible to the verifier.
#[macro_export]
macro_rules! bail {
    ($fmt:literal $(, $arg:expr)* $(,)?) => {{
        $( let _ = &$arg; )*
        return ::core::result::Result::Err($crate::Error)
    }};
    ($($t:tt)*) => {
        return ::core::result::Result::Err($crate::Error)
    };
}

#[macro_export]
macro_rules! anyhow {
    ($fmt:literal $(, $arg:expr)* $(,)?) => {{
        $( let _ = &$arg; )*
        $crate::Error
    }};
    ($($t:tt)*) => {
        $crate::Error
    };
}

pub trait Context<T, E> {
    fn context<C>(self, context: C) -> Result<T, Error>
    where
        C: fmt::Display + Send + Sync + 'static;
    fn with_context<C, F>(self, f: F) -> Result<T, Error>
    where
        C: fmt::Display + Send + Sync + 'static,
        F: FnOnce() -> C;
}

impl<T> Context<T, Error> for Result<T, Error> {
    #[inline]
    fn context<C>(self, _context: C) -> Result<T, Error>
    where
        C: fmt::Display + Send + Sync + 'static,
    {
        self
    }
    #[inline]
    fn with_context<C, F>(self, _f: F) -> Result<T, Error>
    where
        C: fmt::Display + Send + Sync + 'static,
        F: FnOnce() -> C,
    {
        self
    }
}
