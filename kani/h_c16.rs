// C16 - I/O ports: representation invariant per operation on the REAL Bus (Bus::write DDR/DR arms,
// on_write_ddr, on_write_dr, write_port).  Abstract port state: L = value the CPU last wrote to DR
// (data latch), D = DDR, P = external pin levels.  Invariant inv(p):
//     DDR register == D, pin array == P, DR register == (L & D) | (!D & P)
use super::seam::{self, seam};
use super::super::*;
use crate::bus::Bus;

struct Port {
    p: usize, // 0..11
    l: u8,
    d: u8,
    pins: u8,
}

fn bus_with_port() -> (Cpu, Port, usize) {
    *crate::setting::ENABLE_PRINT_OPCODE.write().unwrap() = false;
    let mut cpu = Cpu::new();
    let p: usize = kani::any();
    kani::assume(p < 11);
    let q: usize = kani::any();
    kani::assume(q < 11 && q != p);
    let port = Port { p, l: kani::any(), d: kani::any(), pins: kani::any() };
    cpu.bus.io_registrs1[p] = port.d;
    cpu.bus.io_port_in[p] = port.pins;
    cpu.bus.io_registrs2[0xb0 + p] = (port.l & port.d) | (!port.d & port.pins);
    // a second, arbitrary port to observe non-interference
    cpu.bus.io_registrs1[q] = kani::any();
    cpu.bus.io_port_in[q] = kani::any();
    cpu.bus.io_registrs2[0xb0 + q] = kani::any();
    (cpu, port, q)
}

fn dr(cpu: &Cpu, p: usize) -> u8 {
    cpu.bus.io_registrs2[0xb0 + p]
}

macro_rules! other_port_untouched {
    ($cpu:ident, $q:ident, $o:ident, $msg:literal) => {
        assert!($cpu.bus.io_registrs1[$q] == $o.0 && $cpu.bus.io_port_in[$q] == $o.1 && dr(&$cpu, $q) == $o.2, $msg);
    };
}

#[kani::proof]
#[kani::stub(Bus::send_io_port_value, seam::bus_send_io_port_value)]
fn c16_write_dr() {
    let (mut cpu, port, q) = bus_with_port();
    let o = (cpu.bus.io_registrs1[q], cpu.bus.io_port_in[q], dr(&cpu, q));
    let driven0 = dr(&cpu, port.p) & port.d;
    let v: u8 = kani::any();
    let r = cpu.bus.write(0xffffd0 + port.p as u32, v);
    assert!(r.is_ok(), "OBL:C16/write_dr/ok");
    // L' = v
    assert!(cpu.bus.io_registrs1[port.p] == port.d && cpu.bus.io_port_in[port.p] == port.pins, "OBL:C16/write_dr/ddr_and_pins_unchanged");
    assert!(dr(&cpu, port.p) == (v & port.d) | (!port.d & port.pins), "OBL:C16/write_dr/reads_latch_on_outputs_pins_on_inputs");
    let driven1 = dr(&cpu, port.p) & port.d;
    let s = seam();
    assert!(s.ioport_msgs <= 1, "OBL:C16/write_dr/at_most_one_message");
    assert!(s.ioport_msgs == 0 || (s.last_port as usize == port.p + 1 && s.last_port_value == driven1), "OBL:C16/write_dr/message_carries_port_and_new_output");
    assert!(s.ioport_msgs == 1 || driven1 == driven0, "OBL:C16/write_dr/output_change_is_announced");
    other_port_untouched!(cpu, q, o, "OBL:C16/write_dr/other_ports_unaffected");
    kani::cover!(s.ioport_msgs == 1, "COVER:message");
    kani::cover!(true, "REACH:end");
}

#[kani::proof]
#[kani::stub(Bus::send_io_port_value, seam::bus_send_io_port_value)]
fn c16_write_ddr() {
    let (mut cpu, port, q) = bus_with_port();
    let o = (cpu.bus.io_registrs1[q], cpu.bus.io_port_in[q], dr(&cpu, q));
    let driven0 = dr(&cpu, port.p) & port.d;
    let d1: u8 = kani::any();
    let r = cpu.bus.write(0xfee000 + port.p as u32, d1);
    assert!(r.is_ok(), "OBL:C16/write_ddr/ok");
    assert!(cpu.bus.io_registrs1[port.p] == d1 && cpu.bus.io_port_in[port.p] == port.pins, "OBL:C16/write_ddr/ddr_updated_pins_unchanged");
    let want = (port.l & d1) | (!d1 & port.pins);
    let newly_output = d1 & !port.d;
    assert!((dr(&cpu, port.p) ^ want) & !newly_output == 0, "OBL:C16/write_ddr/kept_outputs_and_inputs_read_correctly");
    assert!((dr(&cpu, port.p) ^ want) & newly_output == 0, "OBL:C16/write_ddr/bits_switched_to_output_show_the_latch");
    let driven1 = dr(&cpu, port.p) & d1;
    let s = seam();
    assert!(s.ioport_msgs <= 1, "OBL:C16/write_ddr/at_most_one_message");
    assert!(s.ioport_msgs == 0 || (s.last_port as usize == port.p + 1 && s.last_port_value == driven1), "OBL:C16/write_ddr/message_carries_port_and_new_output");
    assert!(s.ioport_msgs == 1 || driven1 == driven0, "OBL:C16/write_ddr/output_change_is_announced");
    other_port_untouched!(cpu, q, o, "OBL:C16/write_ddr/other_ports_unaffected");
    kani::cover!(newly_output != 0, "COVER:switch_to_output");
    kani::cover!(true, "REACH:end");
}

#[kani::proof]
#[kani::stub(Bus::send_io_port_value, seam::bus_send_io_port_value)]
fn c16_external_input() {
    let (mut cpu, port, q) = bus_with_port();
    let o = (cpu.bus.io_registrs1[q], cpu.bus.io_port_in[q], dr(&cpu, q));
    let driven0 = dr(&cpu, port.p) & port.d;
    let v: u8 = kani::any();
    cpu.bus.write_port(port.p as u8 + 1, v);
    // P' = v
    assert!(cpu.bus.io_registrs1[port.p] == port.d && cpu.bus.io_port_in[port.p] == v, "OBL:C16/external_input/pins_updated_ddr_unchanged");
    assert!(dr(&cpu, port.p) == (port.l & port.d) | (!port.d & v), "OBL:C16/external_input/never_disturbs_output_bits");
    assert!(dr(&cpu, port.p) & port.d == driven0 && seam().ioport_msgs == 0, "OBL:C16/external_input/output_unchanged_no_message");
    other_port_untouched!(cpu, q, o, "OBL:C16/external_input/other_ports_unaffected");
    // invalid port numbers are ignored
    let bad: u8 = kani::any();
    kani::assume(bad == 0 || bad > 11);
    let before = (cpu.bus.io_port_in, dr(&cpu, port.p));
    cpu.bus.write_port(bad, v);
    assert!(cpu.bus.io_port_in == before.0 && dr(&cpu, port.p) == before.1, "OBL:C16/external_input/invalid_port_ignored");
    kani::cover!(true, "REACH:end");
}
