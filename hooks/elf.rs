// Included at the end of /repo/src/elf.rs (cfg koge29_verif): C11/C12 bounded harnesses need the private read_elf.
#[cfg(kani)]
#[allow(dead_code, unused_imports)]
mod verif_elf {
    include!(concat!(env!("KOGE29_VERIF_DIR"), "/kani/h_elf.rs"));
}
