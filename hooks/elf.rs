// hook content for elf (filled in later)
