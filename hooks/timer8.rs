// Included at the end of /repo/src/modules/timer8.rs (cfg koge29_verif): property C17 harnesses need the
// private fields of Timer8_0.
#[cfg(kani)]
#[allow(dead_code, unused_imports, static_mut_refs)]
mod verif_c17 {
    include!(concat!(env!("KOGE29_VERIF_DIR"), "/kani/h_c17.rs"));
}

#[cfg(all(test, not(kani)))]
#[allow(dead_code, unused_imports)]
mod native_c17 {
    include!(concat!(env!("KOGE29_VERIF_DIR"), "/kani/native_c17.rs"));
}
