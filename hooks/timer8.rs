// hook content for timer8 (filled in later)
