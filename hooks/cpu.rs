// Content of module crate::cpu::verif_hooks (compiled only with --cfg koge29_verif).
// Being a child of `cpu` it can call every pub(in super::super) handler and read private fields.

// message capture (hook lines in src/cpu/messages.rs): native replay / bounded stand-ins read the log;
// under Kani the sending functions are stubbed and this is never reached
#[cfg(not(kani))]
thread_local! {
    pub static MESSAGES: std::cell::RefCell<Vec<String>> = std::cell::RefCell::new(Vec::new());
}
#[cfg(not(kani))]
pub fn capture_message(m: &String) {
    MESSAGES.with(|v| v.borrow_mut().push(m.clone()));
}
#[cfg(kani)]
pub fn capture_message(_m: &String) {}

#[allow(dead_code, unused_variables, unused_mut)]
pub mod isa {
    include!(concat!(env!("KOGE29_VERIF_DIR"), "/spec/isa.rs"));
}

#[cfg(kani)]
#[allow(dead_code, static_mut_refs)]
pub mod seam {
    include!(concat!(env!("KOGE29_VERIF_DIR"), "/kani/seam.rs"));
}

#[cfg(kani)]
#[allow(dead_code, unused_imports, unused_macros)]
mod kstep {
    include!(concat!(env!("KOGE29_VERIF_DIR"), "/kani/step.rs"));
    include!(concat!(env!("KOGE29_VERIF_DIR"), "/kani/forms_gen.rs"));
}

#[cfg(kani)]
#[allow(dead_code, unused_imports)]
mod kc19 {
    include!(concat!(env!("KOGE29_VERIF_DIR"), "/kani/h_c19.rs"));
}

#[cfg(kani)]
#[allow(dead_code, unused_imports)]
mod kctl {
    include!(concat!(env!("KOGE29_VERIF_DIR"), "/kani/h_ctl.rs"));
}
#[cfg(kani)]
#[allow(dead_code, unused_imports)]
mod kc09 {
    include!(concat!(env!("KOGE29_VERIF_DIR"), "/kani/h_c09.rs"));
}
#[cfg(kani)]
#[allow(dead_code, unused_imports)]
mod kc14 {
    include!(concat!(env!("KOGE29_VERIF_DIR"), "/kani/h_c14.rs"));
}
#[cfg(kani)]
#[allow(dead_code, unused_imports, unused_macros)]
mod kc16 {
    include!(concat!(env!("KOGE29_VERIF_DIR"), "/kani/h_c16.rs"));
}
#[cfg(kani)]
#[allow(dead_code, unused_imports, unused_macros, static_mut_refs)]
mod kc07 {
    include!(concat!(env!("KOGE29_VERIF_DIR"), "/kani/h_c07.rs"));
}
#[cfg(kani)]
#[allow(dead_code, unused_imports)]
mod kc15 {
    include!(concat!(env!("KOGE29_VERIF_DIR"), "/kani/h_c15.rs"));
}

#[cfg(all(test, not(kani)))]
#[allow(dead_code, unused_imports)]
mod native {
    include!(concat!(env!("KOGE29_VERIF_DIR"), "/kani/native.rs"));
}
