// hook content for bus (filled in later)
