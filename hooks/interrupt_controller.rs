// hook content for interrupt_controller (filled in later)
