// Included at the end of /repo/src/cpu/interrupt_controller.rs (cfg koge29_verif): read-only accessors for
// the pending queue (the field is private to this module).
impl InterruptController {
    pub fn vh_len(&self) -> usize {
        self.interrupt_requests.len()
    }
    pub fn vh_get(&self, i: usize) -> u8 {
        self.interrupt_requests[i]
    }
}
